#!/bin/bash
# Offline build of every profile the quick checks use (so a quick check on an unchanged tree
# only pays a no-op cargo invocation).
cd "$(dirname "$0")"
export CARGO_NET_OFFLINE=true
mkdir -p work evidence replays
( cd harness && cargo build --release -p runner && cargo build -p runner && cargo build --release -p runner --features mmstd --target-dir target-std ) 2>&1 | tail -n 3
( cd harness-serde && cargo build --release && cargo build ) 2>&1 | tail -n 2
