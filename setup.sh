#!/bin/sh
cd "$(dirname "$0")/harness" && CARGO_NET_OFFLINE=true cargo build --release 2>&1 | tail -3
