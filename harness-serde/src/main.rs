//! C20: serde round trip (micromap built with feature `serde`).
//! `serdechk quick|thorough` or `serdechk --replay <file>`.
//!
//! Oracle: (1) a recording Serializer sees Some(len()) announced and exactly len() entries,
//! equal to the iteration sequence; (2) those entries fed through serde's value deserializers
//! into a container of capacity M >= len give a container equal to the original and to the
//! model; (3) the same through bincode (legacy config), with the exact byte count.

use micromap::{Map, Set};
use proptest::prelude::*;
use proptest::test_runner::{Config, RngSeed, TestCaseError, TestError, TestRunner};
use serde::de::value::{Error as VErr, MapDeserializer, SeqDeserializer};
use serde::ser::{Impossible, SerializeMap, SerializeSeq};
use serde::{Deserialize, Serialize, Serializer};
use std::collections::{BTreeMap, HashSet};
use std::fmt::Write as _;
use std::panic::{catch_unwind, AssertUnwindSafe};
use std::path::PathBuf;
use std::time::Instant;

#[path = "../../harness/runner/src/json.rs"]
mod json;
use json::J;

// counting allocator (per-thread counter, const-initialised: counting never allocates)
thread_local! {
    static ALLOCS: std::cell::Cell<u64> = const { std::cell::Cell::new(0) };
}
struct CountingAlloc;
unsafe impl std::alloc::GlobalAlloc for CountingAlloc {
    unsafe fn alloc(&self, l: std::alloc::Layout) -> *mut u8 {
        let _ = ALLOCS.try_with(|c| c.set(c.get() + 1));
        std::alloc::System.alloc(l)
    }
    unsafe fn dealloc(&self, p: *mut u8, l: std::alloc::Layout) {
        std::alloc::System.dealloc(p, l)
    }
    unsafe fn realloc(&self, p: *mut u8, l: std::alloc::Layout, n: usize) -> *mut u8 {
        let _ = ALLOCS.try_with(|c| c.set(c.get() + 1));
        std::alloc::System.realloc(p, l, n)
    }
}
#[global_allocator]
static GLOBAL: CountingAlloc = CountingAlloc;
fn allocs() -> u64 {
    ALLOCS.with(|c| c.get())
}
/// C06 mode: (de)serialization of containers with integer payloads through non-allocating
/// formats takes nothing from the allocator
static PROP06: std::sync::atomic::AtomicBool = std::sync::atomic::AtomicBool::new(false);
fn noalloc_fail(what: &str, a0: u64, ok: bool) -> Option<String> {
    let d = allocs() - a0;
    if PROP06.load(std::sync::atomic::Ordering::Relaxed) && ok && d > 0 {
        Some(format!("{d} allocator request(s) during {what} (integer payloads, a format that does not allocate)"))
    } else {
        None
    }
}

// ------------------------------------------------------------------------------------------
// recording serializer
// ------------------------------------------------------------------------------------------

#[derive(Debug, Clone, PartialEq, Eq)]
enum Tok {
    U8(u8),
    U16(u16),
    U32(u32),
    MapStart(Option<usize>),
    MapEnd,
    SeqStart(Option<usize>),
    SeqEnd,
    Unsupported(&'static str),
}

#[derive(Debug)]
struct SErr;
impl std::fmt::Display for SErr {
    fn fmt(&self, f: &mut std::fmt::Formatter<'_>) -> std::fmt::Result {
        f.write_str("recorder error")
    }
}
impl std::error::Error for SErr {}
impl serde::ser::Error for SErr {
    fn custom<T: std::fmt::Display>(_: T) -> Self {
        SErr
    }
}

struct Rec<'a>(&'a mut Vec<Tok>);

macro_rules! unsup {
    ($($name:ident($($t:ty),*)),* $(,)?) => {
        $(fn $name(self $(, _: $t)*) -> Result<(), SErr> { self.0.push(Tok::Unsupported(stringify!($name))); Ok(()) })*
    };
}

impl<'a> Serializer for Rec<'a> {
    type Ok = ();
    type Error = SErr;
    type SerializeSeq = RecSeq<'a>;
    type SerializeTuple = Impossible<(), SErr>;
    type SerializeTupleStruct = Impossible<(), SErr>;
    type SerializeTupleVariant = Impossible<(), SErr>;
    type SerializeMap = RecMap<'a>;
    type SerializeStruct = Impossible<(), SErr>;
    type SerializeStructVariant = Impossible<(), SErr>;
    fn serialize_u8(self, v: u8) -> Result<(), SErr> {
        self.0.push(Tok::U8(v));
        Ok(())
    }
    fn serialize_u16(self, v: u16) -> Result<(), SErr> {
        self.0.push(Tok::U16(v));
        Ok(())
    }
    fn serialize_u32(self, v: u32) -> Result<(), SErr> {
        self.0.push(Tok::U32(v));
        Ok(())
    }
    unsup!(serialize_bool(bool), serialize_i8(i8), serialize_i16(i16), serialize_i32(i32), serialize_i64(i64), serialize_u64(u64), serialize_f32(f32), serialize_f64(f64), serialize_char(char), serialize_str(&str), serialize_bytes(&[u8]), serialize_none(), serialize_unit(), serialize_unit_struct(&'static str), serialize_unit_variant(&'static str, u32, &'static str));
    fn serialize_some<T: ?Sized + Serialize>(self, _: &T) -> Result<(), SErr> {
        Err(SErr)
    }
    fn serialize_newtype_struct<T: ?Sized + Serialize>(self, _: &'static str, _: &T) -> Result<(), SErr> {
        Err(SErr)
    }
    fn serialize_newtype_variant<T: ?Sized + Serialize>(self, _: &'static str, _: u32, _: &'static str, _: &T) -> Result<(), SErr> {
        Err(SErr)
    }
    fn serialize_seq(self, len: Option<usize>) -> Result<RecSeq<'a>, SErr> {
        self.0.push(Tok::SeqStart(len));
        Ok(RecSeq(self.0))
    }
    fn serialize_tuple(self, _: usize) -> Result<Self::SerializeTuple, SErr> {
        Err(SErr)
    }
    fn serialize_tuple_struct(self, _: &'static str, _: usize) -> Result<Self::SerializeTupleStruct, SErr> {
        Err(SErr)
    }
    fn serialize_tuple_variant(self, _: &'static str, _: u32, _: &'static str, _: usize) -> Result<Self::SerializeTupleVariant, SErr> {
        Err(SErr)
    }
    fn serialize_map(self, len: Option<usize>) -> Result<RecMap<'a>, SErr> {
        self.0.push(Tok::MapStart(len));
        Ok(RecMap(self.0))
    }
    fn serialize_struct(self, _: &'static str, _: usize) -> Result<Self::SerializeStruct, SErr> {
        Err(SErr)
    }
    fn serialize_struct_variant(self, _: &'static str, _: u32, _: &'static str, _: usize) -> Result<Self::SerializeStructVariant, SErr> {
        Err(SErr)
    }
    fn collect_str<T: ?Sized + std::fmt::Display>(self, _: &T) -> Result<(), SErr> {
        Err(SErr)
    }
}

struct RecSeq<'a>(&'a mut Vec<Tok>);
impl SerializeSeq for RecSeq<'_> {
    type Ok = ();
    type Error = SErr;
    fn serialize_element<T: ?Sized + Serialize>(&mut self, v: &T) -> Result<(), SErr> {
        v.serialize(Rec(self.0))
    }
    fn end(self) -> Result<(), SErr> {
        self.0.push(Tok::SeqEnd);
        Ok(())
    }
}
struct RecMap<'a>(&'a mut Vec<Tok>);
impl SerializeMap for RecMap<'_> {
    type Ok = ();
    type Error = SErr;
    fn serialize_key<T: ?Sized + Serialize>(&mut self, k: &T) -> Result<(), SErr> {
        k.serialize(Rec(self.0))
    }
    fn serialize_value<T: ?Sized + Serialize>(&mut self, v: &T) -> Result<(), SErr> {
        v.serialize(Rec(self.0))
    }
    fn end(self) -> Result<(), SErr> {
        self.0.push(Tok::MapEnd);
        Ok(())
    }
}

// ------------------------------------------------------------------------------------------
// token-stream deserializer: a self-delimiting format (end markers, like JSON) whose
// MapAccess / SeqAccess report either the exact number of remaining entries or no size hint
// ------------------------------------------------------------------------------------------

struct TokDe<'a> {
    toks: &'a [Tok],
    pos: usize,
    /// report Some(remaining) from size_hint (true) or None (false)
    hint: bool,
}

impl<'a> TokDe<'a> {
    fn new(toks: &'a [Tok], hint: bool) -> Self {
        TokDe { toks, pos: 0, hint }
    }
    fn peek(&self) -> Option<&Tok> {
        self.toks.get(self.pos)
    }
    /// entries (tokens / per) up to the end marker of the innermost open container
    fn remaining(&self, per: usize) -> usize {
        let mut n = 0;
        for t in &self.toks[self.pos.min(self.toks.len())..] {
            if matches!(t, Tok::MapEnd | Tok::SeqEnd) {
                break;
            }
            n += 1;
        }
        n / per
    }
    fn all_consumed(&self) -> bool {
        self.pos == self.toks.len()
    }
}

impl<'de> serde::Deserializer<'de> for &mut TokDe<'_> {
    type Error = VErr;
    fn deserialize_any<V: serde::de::Visitor<'de>>(self, visitor: V) -> Result<V::Value, VErr> {
        use serde::de::Error;
        let t = self.peek().cloned().ok_or_else(|| VErr::custom("unexpected end of token stream"))?;
        self.pos += 1;
        match t {
            Tok::U8(x) => visitor.visit_u8(x),
            Tok::U16(x) => visitor.visit_u16(x),
            Tok::U32(x) => visitor.visit_u32(x),
            Tok::MapStart(_) => visitor.visit_map(TokAcc { de: self }),
            Tok::SeqStart(_) => visitor.visit_seq(TokAcc { de: self }),
            other => Err(VErr::custom(format!("unexpected token {other:?}"))),
        }
    }
    serde::forward_to_deserialize_any! {
        bool i8 i16 i32 i64 i128 u8 u16 u32 u64 u128 f32 f64 char str string bytes byte_buf option unit
        unit_struct newtype_struct seq tuple tuple_struct map struct enum identifier ignored_any
    }
}

struct TokAcc<'b, 'a> {
    de: &'b mut TokDe<'a>,
}

impl<'de> serde::de::MapAccess<'de> for TokAcc<'_, '_> {
    type Error = VErr;
    fn next_key_seed<K: serde::de::DeserializeSeed<'de>>(&mut self, seed: K) -> Result<Option<K::Value>, VErr> {
        if matches!(self.de.peek(), Some(Tok::MapEnd)) {
            self.de.pos += 1;
            return Ok(None);
        }
        seed.deserialize(&mut *self.de).map(Some)
    }
    fn next_value_seed<V: serde::de::DeserializeSeed<'de>>(&mut self, seed: V) -> Result<V::Value, VErr> {
        seed.deserialize(&mut *self.de)
    }
    fn size_hint(&self) -> Option<usize> {
        if self.de.hint {
            Some(self.de.remaining(2))
        } else {
            None
        }
    }
}

impl<'de> serde::de::SeqAccess<'de> for TokAcc<'_, '_> {
    type Error = VErr;
    fn next_element_seed<T: serde::de::DeserializeSeed<'de>>(&mut self, seed: T) -> Result<Option<T::Value>, VErr> {
        if matches!(self.de.peek(), Some(Tok::SeqEnd)) {
            self.de.pos += 1;
            return Ok(None);
        }
        seed.deserialize(&mut *self.de).map(Some)
    }
    fn size_hint(&self) -> Option<usize> {
        if self.de.hint {
            Some(self.de.remaining(1))
        } else {
            None
        }
    }
}

// ------------------------------------------------------------------------------------------
// case
// ------------------------------------------------------------------------------------------

const SRC_CAPS: [usize; 6] = [0, 1, 2, 3, 5, 8];
const DST_CAPS: [usize; 7] = [0, 1, 2, 3, 5, 8, 12];

#[derive(Clone, Debug, PartialEq, Eq, Hash)]
struct Case {
    is_set: bool,
    cap: u8,
    dcap: u8,
    univ: u8,
    ops: Vec<[u8; 3]>,
    /// decodes of truncated input (they fail) that precede the round trips of this case: a
    /// failed decode must leave nothing behind that a later, valid decode can trip over
    rejects: u8,
}

impl Case {
    fn to_text(&self, comments: &[String]) -> String {
        let mut s = String::new();
        let _ = writeln!(s, "serdecase v1");
        let _ = writeln!(s, "set {}", self.is_set as u8);
        let _ = writeln!(s, "cap {}", self.cap);
        let _ = writeln!(s, "dcap {}", self.dcap);
        let _ = writeln!(s, "univ {}", self.univ);
        let _ = writeln!(s, "rejects {}", self.rejects);
        for o in &self.ops {
            let _ = writeln!(s, "op {} {} {}", o[0], o[1], o[2]);
        }
        for c in comments {
            let _ = writeln!(s, "# {c}");
        }
        s
    }
    fn from_text(t: &str) -> Option<Case> {
        let mut c = Case { is_set: false, cap: 0, dcap: 0, univ: 1, ops: vec![], rejects: 0 };
        for line in t.lines() {
            let line = line.trim();
            if line.is_empty() || line.starts_with('#') {
                continue;
            }
            let p: Vec<&str> = line.split_whitespace().collect();
            match p[0] {
                "serdecase" => {}
                "set" => c.is_set = p.get(1)? == &"1",
                "cap" => c.cap = p.get(1)?.parse().ok()?,
                "dcap" => c.dcap = p.get(1)?.parse().ok()?,
                "univ" => c.univ = p.get(1)?.parse().ok()?,
                "rejects" => c.rejects = p.get(1)?.parse().ok()?,
                "op" => c.ops.push([p.get(1)?.parse().ok()?, p.get(2)?.parse().ok()?, p.get(3)?.parse().ok()?]),
                _ => return None,
            }
        }
        Some(c)
    }
    fn hash64(&self) -> u64 {
        let mut h: u64 = 0xcbf29ce484222325;
        let mut f = |b: u8| {
            h ^= b as u64;
            h = h.wrapping_mul(0x100000001b3);
        };
        f(self.is_set as u8);
        f(self.cap);
        f(self.dcap);
        f(self.univ);
        f(self.rejects);
        for o in &self.ops {
            for b in o {
                f(*b);
            }
        }
        h
    }
}

#[derive(Default, Clone)]
struct Stats {
    swap_removals: u64,
    len_ge2: u64,
    diff_cap: u64,
    target_too_small: u64,
    bincode_roundtrips: u64,
    value_roundtrips: u64,
    token_roundtrips: u64,
    in_place: u64,
    rejected_decodes: u64,
    wide_roundtrips: u64,
    kilo_roundtrips: u64,
    checks: u64,
    c05_streams: u64,
    c05_with_repeats: u64,
    c05_skipped_overflow: u64,
}

struct Out {
    viol: Option<String>,
    nontrivial: bool,
    st: Stats,
    trace: Vec<String>,
}

fn silent<R>(f: impl FnOnce() -> R) -> Result<R, String> {
    catch_unwind(AssertUnwindSafe(f)).map_err(|p| p.downcast_ref::<String>().cloned().or_else(|| p.downcast_ref::<&str>().map(|s| s.to_string())).unwrap_or_else(|| "panic".into()))
}

fn run_map<const N: usize, const M: usize>(case: &Case) -> Out {
    let mut out = Out { viol: None, nontrivial: false, st: Stats::default(), trace: vec![] };
    let mut m: Map<u8, u32, N> = Map::new();
    let mut model: BTreeMap<u8, u32> = BTreeMap::new();
    let mut swapped = false;
    let u = case.univ.max(1) as usize;
    for (i, o) in case.ops.iter().enumerate() {
        let k = ((o[1] as usize * u) >> 8) as u8;
        let v = ((i as u32 + 1) << 8) | o[2] as u32;
        if (o[0] as usize * 10) >> 8 < 7 {
            if model.contains_key(&k) || model.len() < N {
                m.insert(k, v);
                model.insert(k, v);
            }
        } else {
            let last = m.iter().last().map(|(k, _)| *k);
            if m.remove(&k).is_some() {
                model.remove(&k);
                if last != Some(k) {
                    swapped = true;
                }
            }
        }
    }
    let seq: Vec<(u8, u32)> = m.iter().map(|(k, v)| (*k, *v)).collect();
    let ok_setup = seq.len() == model.len() && seq.iter().all(|(k, v)| model.get(k) == Some(v));
    if !ok_setup {
        out.trace.push("set-up mismatch (discarded)".into());
        return out;
    }
    out.trace.push(format!("Map<u8,u32,{N}> = {seq:?}  -> target capacity {M}"));
    let len = seq.len();
    if swapped {
        out.st.swap_removals += 1;
    }
    if len >= 2 {
        out.st.len_ge2 += 1;
    }
    if N != M {
        out.st.diff_cap += 1;
    }
    out.nontrivial = len >= 2 && swapped && N != M;
    let mut fail = |msg: String| {
        if out.viol.is_none() {
            out.viol = Some(msg);
        }
    };
    // (1) recording serializer
    let mut toks: Vec<Tok> = Vec::new();
    let r = silent(|| m.serialize(Rec(&mut toks)));
    out.st.checks += 1;
    match r {
        Ok(Ok(())) => {
            // announced length, then exactly len() well-formed entries (any order: the statement
            // does not fix one), then the end
            let shape_ok = toks.first() == Some(&Tok::MapStart(Some(len))) && toks.last() == Some(&Tok::MapEnd) && toks.len() == 2 * len + 2;
            let mut emitted: Vec<(u8, u32)> = Vec::new();
            let mut well_formed = shape_ok;
            if shape_ok {
                for ch in toks[1..toks.len() - 1].chunks(2) {
                    match ch {
                        [Tok::U8(k), Tok::U32(v)] => emitted.push((*k, *v)),
                        _ => well_formed = false,
                    }
                }
            }
            let mut want = seq.clone();
            want.sort_unstable();
            emitted.sort_unstable();
            if !well_formed || emitted != want {
                fail(format!("serializer saw {toks:?}, expected Some({len}) announced and exactly the {len} entries {want:?} (in any order)"));
            }
        }
        other => fail(format!("serialize failed: {other:?}")),
    }
    if len > M {
        out.st.target_too_small += 1;
        return out;
    }
    // (1b) decodes that fail (truncated bincode input, a token stream that ends early) before the
    // valid ones: whatever they return, the round trips below must not notice them
    if case.rejects > 0 {
        let mut buf = [0u8; 512];
        let cfg = bincode::config::legacy();
        if let Ok(Ok(n)) = silent(|| bincode::serde::encode_into_slice(&m, &mut buf, cfg)) {
            for i in 0..case.rejects as usize {
                let cut = (n - 1).saturating_sub(i % 4);
                let _ = silent(|| bincode::serde::decode_from_slice::<Map<u8, u32, M>, _>(&buf[..cut], cfg).map(|_| ()));
                if i % 3 == 0 && toks.len() >= 2 {
                    let mut de = TokDe::new(&toks[..toks.len() - 1], i % 2 == 0);
                    let _ = silent(|| Map::<u8, u32, M>::deserialize(&mut de).map(|_| ()));
                }
                out.st.rejected_decodes += 1;
            }
        }
    }
    // (2) emitted entries -> value deserializer -> Map<_,_,M>
    let mut pairs: Vec<(u8, u32)> = Vec::new();
    let mut it = toks.iter();
    while let Some(t) = it.next() {
        if let Tok::U8(k) = t {
            if let Some(Tok::U32(v)) = it.next() {
                pairs.push((*k, *v));
            }
        }
    }
    let r = silent(|| Map::<u8, u32, M>::deserialize(MapDeserializer::<_, VErr>::new(pairs.clone().into_iter())));
    out.st.checks += 1;
    out.st.value_roundtrips += 1;
    match r {
        Ok(Ok(d)) => {
            let got: BTreeMap<u8, u32> = d.iter().map(|(k, v)| (*k, *v)).collect();
            if !(d == m) || got != model || d.len() != len {
                fail(format!("deserializing the emitted entries into capacity {M} gives {got:?} (len {}), original {model:?}", d.len()));
            }
        }
        other => fail(format!("deserialize (value deserializer) into capacity {M} failed: {:?}", other.map(|r| r.map(|_| ()))),
        ),
    }
    // (2b) the recorded token stream through a self-delimiting format, with and without size hints
    for hint in [true, false] {
        let mut de = TokDe::new(&toks, hint);
        let a0 = allocs();
        let r = silent(|| Map::<u8, u32, M>::deserialize(&mut de));
        if let Some(v) = noalloc_fail(if hint { "Map::deserialize from a token stream with exact size hints" } else { "Map::deserialize from a token stream without size hints" }, a0, matches!(r, Ok(Ok(_)))) {
            fail(v);
        }
        out.st.checks += 1;
        out.st.token_roundtrips += 1;
        match r {
            Ok(Ok(d)) => {
                let got: BTreeMap<u8, u32> = d.iter().map(|(k, v)| (*k, *v)).collect();
                if !(d == m) || got != model || d.len() != len || !de.all_consumed() {
                    fail(format!("token stream (size hints {}) into capacity {M} gives {got:?} (len {}, input fully consumed: {}), original {model:?}", if hint { "exact" } else { "absent" }, d.len(), de.all_consumed()));
                }
            }
            other => fail(format!("deserialize (token stream, size hints {}) into capacity {M} failed: {:?}", if hint { "exact" } else { "absent" }, other.map(|r| r.map(|_| ())))),
        }
    }
    // (2c) Deserialize::deserialize_in_place into a target that already holds other entries:
    // by serde's contract the result is the same as a fresh deserialize (the default
    // implementation is `*place = deserialize(..)?`)
    {
        let stale = (case.ops.len() % (M + 1)).min(M);
        let mut place: Map<u8, u32, M> = Map::new();
        for i in 0..stale {
            place.insert(200 + i as u8, 7);
        }
        let mut de = TokDe::new(&toks, case.ops.len() % 2 == 0);
        let a0 = allocs();
        let r = silent(|| <Map<u8, u32, M> as Deserialize>::deserialize_in_place(&mut de, &mut place));
        if let Some(v) = noalloc_fail("Map::deserialize_in_place from a token stream", a0, matches!(r, Ok(Ok(_)))) {
            fail(v);
        }
        out.st.checks += 1;
        out.st.in_place += 1;
        match r {
            Ok(Ok(())) => {
                let got: BTreeMap<u8, u32> = place.iter().map(|(k, v)| (*k, *v)).collect();
                if !(place == m) || got != model || place.len() != len {
                    fail(format!("deserialize_in_place into a map of capacity {M} that held {stale} other entries gives {got:?} (len {}), original {model:?}", place.len()));
                }
            }
            other => fail(format!("deserialize_in_place into capacity {M} (target held {stale} entries) failed: {:?}", other.map(|r| r.map(|_| ())))),
        }
    }
    // (3) bincode
    let mut buf = [0u8; 512];
    let cfg = bincode::config::legacy();
    let a0 = allocs();
    let r = silent(|| bincode::serde::encode_into_slice(&m, &mut buf, cfg));
    if let Some(v) = noalloc_fail("Map::serialize into a byte slice (bincode)", a0, matches!(r, Ok(Ok(_)))) {
        fail(v);
    }
    out.st.checks += 1;
    match r {
        Ok(Ok(n)) => {
            if n != 8 + len * 5 {
                fail(format!("bincode (legacy) wrote {n} bytes for {len} entries, expected {}", 8 + len * 5));
            }
            let a0 = allocs();
            let r2 = silent(|| bincode::serde::decode_from_slice::<Map<u8, u32, M>, _>(&buf[..n], cfg));
            if let Some(v) = noalloc_fail("Map::deserialize from a byte slice (bincode)", a0, matches!(r2, Ok(Ok(_)))) {
                fail(v);
            }
            out.st.bincode_roundtrips += 1;
            match r2 {
                Ok(Ok((d, used))) => {
                    let got: BTreeMap<u8, u32> = d.iter().map(|(k, v)| (*k, *v)).collect();
                    if !(d == m) || got != model || used != n {
                        fail(format!("bincode round trip into capacity {M} gives {got:?} (consumed {used} of {n} bytes), original {model:?}"));
                    }
                }
                other => fail(format!("bincode decode into capacity {M} failed: {:?}", other.map(|r| r.map(|_| ()))),
                ),
            }
        }
        other => fail(format!("bincode encode failed: {other:?}")),
    }
    out
}

fn run_set<const N: usize, const M: usize>(case: &Case) -> Out {
    let mut out = Out { viol: None, nontrivial: false, st: Stats::default(), trace: vec![] };
    let mut s: Set<u16, N> = Set::new();
    let mut model: std::collections::BTreeSet<u16> = Default::default();
    let mut swapped = false;
    let u = case.univ.max(1) as usize;
    for o in case.ops.iter() {
        let k = ((o[1] as usize * u) >> 8) as u16 * 257;
        if (o[0] as usize * 10) >> 8 < 7 {
            if model.contains(&k) || model.len() < N {
                s.insert(k);
                model.insert(k);
            }
        } else {
            let last = s.iter().last().copied();
            if s.remove(&k) {
                model.remove(&k);
                if last != Some(k) {
                    swapped = true;
                }
            }
        }
    }
    let seq: Vec<u16> = s.iter().copied().collect();
    if !(seq.len() == model.len() && seq.iter().all(|k| model.contains(k))) {
        out.trace.push("set-up mismatch (discarded)".into());
        return out;
    }
    out.trace.push(format!("Set<u16,{N}> = {seq:?}  -> target capacity {M}"));
    let len = seq.len();
    if swapped {
        out.st.swap_removals += 1;
    }
    if len >= 2 {
        out.st.len_ge2 += 1;
    }
    if N != M {
        out.st.diff_cap += 1;
    }
    out.nontrivial = len >= 2 && swapped && N != M;
    let mut fail = |msg: String| {
        if out.viol.is_none() {
            out.viol = Some(msg);
        }
    };
    let mut toks: Vec<Tok> = Vec::new();
    let r = silent(|| s.serialize(Rec(&mut toks)));
    out.st.checks += 1;
    match r {
        Ok(Ok(())) => {
            let shape_ok = toks.first() == Some(&Tok::SeqStart(Some(len))) && toks.last() == Some(&Tok::SeqEnd) && toks.len() == len + 2;
            let mut emitted: Vec<u16> = if shape_ok { toks[1..toks.len() - 1].iter().filter_map(|t| if let Tok::U16(k) = t { Some(*k) } else { None }).collect() } else { vec![] };
            let mut want = seq.clone();
            want.sort_unstable();
            emitted.sort_unstable();
            if !shape_ok || emitted != want {
                fail(format!("serializer saw {toks:?}, expected Some({len}) announced and exactly the {len} elements {want:?} (in any order)"));
            }
        }
        other => fail(format!("serialize failed: {other:?}")),
    }
    if len > M {
        out.st.target_too_small += 1;
        return out;
    }
    if case.rejects > 0 {
        let mut buf = [0u8; 512];
        let cfg = bincode::config::legacy();
        if let Ok(Ok(n)) = silent(|| bincode::serde::encode_into_slice(&s, &mut buf, cfg)) {
            for i in 0..case.rejects as usize {
                let cut = (n - 1).saturating_sub(i % 4);
                let _ = silent(|| bincode::serde::decode_from_slice::<Set<u16, M>, _>(&buf[..cut], cfg).map(|_| ()));
                if i % 3 == 0 && toks.len() >= 2 {
                    let mut de = TokDe::new(&toks[..toks.len() - 1], i % 2 == 0);
                    let _ = silent(|| Set::<u16, M>::deserialize(&mut de).map(|_| ()));
                }
                out.st.rejected_decodes += 1;
            }
        }
    }
    let elems: Vec<u16> = toks.iter().filter_map(|t| if let Tok::U16(k) = t { Some(*k) } else { None }).collect();
    let r = silent(|| Set::<u16, M>::deserialize(SeqDeserializer::<_, VErr>::new(elems.clone().into_iter())));
    out.st.checks += 1;
    out.st.value_roundtrips += 1;
    match r {
        Ok(Ok(d)) => {
            let got: std::collections::BTreeSet<u16> = d.iter().copied().collect();
            if !(d == s) || got != model || d.len() != len {
                fail(format!("deserializing the emitted elements into capacity {M} gives {got:?}, original {model:?}"));
            }
        }
        other => fail(format!("deserialize (value deserializer) into capacity {M} failed: {:?}", other.map(|r| r.map(|_| ())))),
    }
    for hint in [true, false] {
        let mut de = TokDe::new(&toks, hint);
        let a0 = allocs();
        let r = silent(|| Set::<u16, M>::deserialize(&mut de));
        if let Some(v) = noalloc_fail(if hint { "Set::deserialize from a token stream with exact size hints" } else { "Set::deserialize from a token stream without size hints" }, a0, matches!(r, Ok(Ok(_)))) {
            fail(v);
        }
        out.st.checks += 1;
        out.st.token_roundtrips += 1;
        match r {
            Ok(Ok(d)) => {
                let got: std::collections::BTreeSet<u16> = d.iter().copied().collect();
                if !(d == s) || got != model || d.len() != len || !de.all_consumed() {
                    fail(format!("token stream (size hints {}) into capacity {M} gives {got:?} (input fully consumed: {}), original {model:?}", if hint { "exact" } else { "absent" }, de.all_consumed()));
                }
            }
            other => fail(format!("deserialize (token stream, size hints {}) into capacity {M} failed: {:?}", if hint { "exact" } else { "absent" }, other.map(|r| r.map(|_| ())))),
        }
    }
    {
        let stale = (case.ops.len() % (M + 1)).min(M);
        let mut place: Set<u16, M> = Set::new();
        for i in 0..stale {
            place.insert(60000 + i as u16);
        }
        let mut de = TokDe::new(&toks, case.ops.len() % 2 == 0);
        let r = silent(|| <Set<u16, M> as Deserialize>::deserialize_in_place(&mut de, &mut place));
        out.st.checks += 1;
        out.st.in_place += 1;
        match r {
            Ok(Ok(())) => {
                let got: std::collections::BTreeSet<u16> = place.iter().copied().collect();
                if !(place == s) || got != model || place.len() != len {
                    fail(format!("deserialize_in_place into a set of capacity {M} that held {stale} other elements gives {got:?}, original {model:?}"));
                }
            }
            other => fail(format!("deserialize_in_place into capacity {M} (target held {stale} elements) failed: {:?}", other.map(|r| r.map(|_| ())))),
        }
    }
    let mut buf = [0u8; 512];
    let cfg = bincode::config::legacy();
    let a0 = allocs();
    let r = silent(|| bincode::serde::encode_into_slice(&s, &mut buf, cfg));
    if let Some(v) = noalloc_fail("Set::serialize into a byte slice (bincode)", a0, matches!(r, Ok(Ok(_)))) {
        fail(v);
    }
    out.st.checks += 1;
    match r {
        Ok(Ok(n)) => {
            if n != 8 + len * 2 {
                fail(format!("bincode (legacy) wrote {n} bytes for {len} elements, expected {}", 8 + len * 2));
            }
            let a0 = allocs();
            let r2 = silent(|| bincode::serde::decode_from_slice::<Set<u16, M>, _>(&buf[..n], cfg));
            if let Some(v) = noalloc_fail("Set::deserialize from a byte slice (bincode)", a0, matches!(r2, Ok(Ok(_)))) {
                fail(v);
            }
            out.st.bincode_roundtrips += 1;
            match r2 {
                Ok(Ok((d, used))) => {
                    let got: std::collections::BTreeSet<u16> = d.iter().copied().collect();
                    if !(d == s) || got != model || used != n {
                        fail(format!("bincode round trip into capacity {M} gives {got:?} (consumed {used} of {n}), original {model:?}"));
                    }
                }
                other => fail(format!("bincode decode into capacity {M} failed: {:?}", other.map(|r| r.map(|_| ())))),
            }
        }
        other => fail(format!("bincode encode failed: {other:?}")),
    }
    out
}

macro_rules! grid {
    ($f:ident, $n:expr, $m:expr, $case:expr, [$($a:literal),*]) => {
        match $n { $($a => grid!(@m $f, $a, $m, $case),)* _ => unreachable!() }
    };
    (@m $f:ident, $a:literal, $m:expr, $case:expr) => {
        match $m {
            0 => $f::<$a, 0>($case), 1 => $f::<$a, 1>($case), 2 => $f::<$a, 2>($case), 3 => $f::<$a, 3>($case),
            5 => $f::<$a, 5>($case), 8 => $f::<$a, 8>($case), 12 => $f::<$a, 12>($case), _ => unreachable!(),
        }
    };
}

static PROP05: std::sync::atomic::AtomicBool = std::sync::atomic::AtomicBool::new(false);

fn run_case(case: &Case) -> Out {
    let n = SRC_CAPS[case.cap as usize % SRC_CAPS.len()];
    let m = DST_CAPS[case.dcap as usize % DST_CAPS.len()];
    if PROP05.load(std::sync::atomic::Ordering::Relaxed) {
        return grid!(run_c05, 0, m, case, [0]);
    }
    let mut out = if case.is_set { grid!(run_set, n, m, case, [0, 1, 2, 3, 5, 8]) } else { grid!(run_map, n, m, case, [0, 1, 2, 3, 5, 8]) };
    // one case in 48 also round-trips containers of more than 255 entries (positions, counts
    // and indices that do not fit a byte)
    if case.hash64() % 48 == 0 && out.viol.is_none() {
        if let Some(v) = wide_round_trip(case) {
            out.viol = Some(v);
        }
        out.st.wide_roundtrips += 1;
    }
    // ... and one in 1920 containers of more than 1024 entries
    if case.hash64() % 1920 == 7 && out.viol.is_none() {
        if let Some(v) = wide_rt::<1500, 1510>(case, 1030, 471) {
            out.viol = Some(v);
        }
        out.st.kilo_roundtrips += 1;
    }
    out
}

/// `Map<u16,u32,300>` / `Set<u16,300>` holding 250..300 entries (in an order made by a few
/// removals and re-insertions), through bincode and the token stream, into 300 and 310 slots.
fn wide_round_trip(case: &Case) -> Option<String> {
    wide_rt::<300, 310>(case, 250, 51)
}

/// The same for `N` slots holding `lo .. lo + span` entries, decoded into `N` and `M` slots
/// (1500 slots: more than 1024 entries; 66000 slots, thorough tier: more than 65535).
fn wide_rt<const N: usize, const M: usize>(case: &Case, lo: usize, span: usize) -> Option<String> {
    let seedv: usize = case.ops.iter().fold(case.univ as usize, |a, o| a.wrapping_mul(31).wrapping_add(o[0] as usize + o[1] as usize * 7 + o[2] as usize * 13));
    let count = lo + seedv % span;
    let mut m: Box<Map<u32, u32, N>> = Box::new(Map::new());
    let mut s: Box<Set<u32, N>> = Box::new(Set::new());
    for i in 0..count {
        let k = (i as u32).wrapping_mul(7).wrapping_add(3);
        m.insert(k, 0xA000 + i as u32);
        s.insert(k);
    }
    for o in case.ops.iter().take(6) {
        let k = ((o[1] as usize * count) >> 8) as u32 * 7 + 3;
        if let Some(v) = m.remove(&k) {
            m.insert(k, v);
        }
        if s.remove(&k) {
            s.insert(k);
        }
    }
    if m.len() != count || s.len() != count {
        return None;
    }
    let cfg = bincode::config::legacy();
    let mut buf = vec![0u8; 16 + N * 8];
    macro_rules! bin {
        ($x:expr, $t:ty, $what:expr) => {{
            match silent(|| bincode::serde::encode_into_slice(&*$x, &mut buf, cfg)) {
                Ok(Ok(n)) => match silent(|| bincode::serde::decode_from_slice::<$t, _>(&buf[..n], cfg).map(|(d, used)| (Box::new(d), used))) {
                    Ok(Ok((d, used))) => {
                        if !(*d == *$x) || d.len() != count || used != n {
                            return Some(format!("{}: bincode round trip of {count} entries gives {} entries (== original: {}), consumed {used} of {n} bytes", $what, d.len(), *d == *$x));
                        }
                    }
                    other => return Some(format!("{}: bincode decode of {count} entries failed: {:?}", $what, other.map(|r| r.map(|_| ())))),
                },
                other => return Some(format!("{}: bincode encode of {count} entries failed: {other:?}", $what)),
            }
        }};
    }
    bin!(m, Map<u32, u32, N>, format!("Map<u32,u32,{N}> -> {N} slots"));
    bin!(m, Map<u32, u32, M>, format!("Map<u32,u32,{N}> -> {M} slots"));
    bin!(s, Set<u32, N>, format!("Set<u32,{N}> -> {N} slots"));
    bin!(s, Set<u32, M>, format!("Set<u32,{N}> -> {M} slots"));
    // token stream with and without size hints
    let mut toks: Vec<Tok> = Vec::new();
    match silent(|| m.serialize(Rec(&mut toks))) {
        Ok(Ok(())) => {
            if toks.first() != Some(&Tok::MapStart(Some(count))) || toks.len() != 2 * count + 2 {
                return Some(format!("Map<u32,u32,{N}>: serializer announced {:?} and emitted {} tokens for {count} entries", toks.first(), toks.len()));
            }
            for hint in [true, false] {
                let mut de = TokDe::new(&toks, hint);
                match silent(|| Map::<u32, u32, N>::deserialize(&mut de).map(Box::new)) {
                    Ok(Ok(d)) => {
                        if !(*d == *m) || d.len() != count {
                            return Some(format!("Map<u32,u32,{N}>: token stream round trip (size hints {hint}) gives {} entries for {count}", d.len()));
                        }
                    }
                    other => return Some(format!("Map<u32,u32,{N}>: token stream decode of {count} entries (size hints {hint}) failed: {:?}", other.map(|r| r.map(|_| ())))),
                }
            }
        }
        other => return Some(format!("Map<u32,u32,{N}>: serialize failed: {other:?}")),
    }
    let mut toks: Vec<Tok> = Vec::new();
    match silent(|| s.serialize(Rec(&mut toks))) {
        Ok(Ok(())) => {
            for hint in [true, false] {
                let mut de = TokDe::new(&toks, hint);
                match silent(|| Set::<u32, N>::deserialize(&mut de).map(Box::new)) {
                    Ok(Ok(d)) => {
                        if !(*d == *s) || d.len() != count {
                            return Some(format!("Set<u32,{N}>: token stream round trip (size hints {hint}) gives {} elements for {count}", d.len()));
                        }
                    }
                    other => return Some(format!("Set<u32,{N}>: token stream decode of {count} elements (size hints {hint}) failed: {:?}", other.map(|r| r.map(|_| ())))),
                }
            }
        }
        other => return Some(format!("Set<u32,{N}>: serialize failed: {other:?}")),
    }
    None
}

// ------------------------------------------------------------------------------------------
// C05 through the serde feature: deserializing is an operation like any other, and the input
// it reads need not come from this crate's serializer (repeated keys are legal input for a
// map format). Whatever the stream holds, the resulting container must satisfy C05's standing
// invariants: keys pairwise unequal, len() == number of yielded entries, is_empty() <=> len()==0,
// len() <= capacity(), every yielded key looks up the value yielded with it.
// ------------------------------------------------------------------------------------------

fn c05_invariants_map<const M: usize>(d: &Map<u8, u32, M>, what: &str) -> Option<String> {
    let seq: Vec<(u8, u32)> = d.iter().map(|(k, v)| (*k, *v)).collect();
    for (i, a) in seq.iter().enumerate() {
        if seq[i + 1..].iter().any(|b| b.0 == a.0) {
            return Some(format!("{what}: key {} is yielded twice by iteration: {seq:?}", a.0));
        }
    }
    if seq.len() != d.len() {
        return Some(format!("{what}: len()={} but iteration yields {} entries", d.len(), seq.len()));
    }
    if d.is_empty() != (d.len() == 0) || d.len() > d.capacity() {
        return Some(format!("{what}: len()={} is_empty()={} capacity()={}", d.len(), d.is_empty(), d.capacity()));
    }
    for (k, v) in &seq {
        if d.get(k) != Some(v) {
            return Some(format!("{what}: get({k}) = {:?} but iteration yields ({k}, {v})", d.get(k)));
        }
    }
    None
}

fn c05_invariants_set<const M: usize>(d: &Set<u16, M>, what: &str) -> Option<String> {
    let seq: Vec<u16> = d.iter().copied().collect();
    for (i, a) in seq.iter().enumerate() {
        if seq[i + 1..].contains(a) {
            return Some(format!("{what}: element {a} is yielded twice by iteration: {seq:?}"));
        }
    }
    if seq.len() != d.len() || d.is_empty() != (d.len() == 0) || d.len() > d.capacity() {
        return Some(format!("{what}: len()={} is_empty()={} capacity()={} iteration yields {}", d.len(), d.is_empty(), d.capacity(), seq.len()));
    }
    for k in &seq {
        if !d.contains(k) || d.get(k) != Some(k) {
            return Some(format!("{what}: yielded element {k} cannot be looked up"));
        }
    }
    None
}

/// One C05 case: `case.ops` is the entry stream (key byte, value byte), target capacity from `dcap`.
fn run_c05<const N: usize, const M: usize>(case: &Case) -> Out {
    let mut out = Out { viol: None, nontrivial: false, st: Stats::default(), trace: vec![] };
    let u = case.univ.max(1) as usize;
    let cfg = bincode::config::legacy();
    if !case.is_set {
        let entries: Vec<(u8, u32)> = case.ops.iter().enumerate().map(|(i, o)| (((o[1] as usize * u) >> 8) as u8, ((i as u32 + 1) << 8) | o[2] as u32)).collect();
        let mut distinct: Vec<u8> = entries.iter().map(|e| e.0).collect();
        distinct.sort_unstable();
        distinct.dedup();
        if distinct.len() > M {
            out.st.c05_skipped_overflow += 1;
            return out;
        }
        out.st.c05_streams += 1;
        let repeats = distinct.len() < entries.len();
        if repeats {
            out.st.c05_with_repeats += 1;
        }
        out.nontrivial = repeats && entries.len() >= 3;
        out.trace.push(format!("entry stream {entries:?} -> Map<u8,u32,{M}>"));
        let mut toks = vec![Tok::MapStart(Some(entries.len()))];
        for (k, v) in &entries {
            toks.push(Tok::U8(*k));
            toks.push(Tok::U32(*v));
        }
        toks.push(Tok::MapEnd);
        let mut bytes: Vec<u8> = (entries.len() as u64).to_le_bytes().to_vec();
        for (k, v) in &entries {
            bytes.push(*k);
            bytes.extend_from_slice(&v.to_le_bytes());
        }
        let mut results: Vec<(String, Result<Result<Map<u8, u32, M>, String>, String>)> = Vec::new();
        for hint in [true, false] {
            let mut de = TokDe::new(&toks, hint);
            results.push((format!("token stream (size hints {})", if hint { "exact" } else { "absent" }), silent(|| Map::<u8, u32, M>::deserialize(&mut de).map_err(|e| e.to_string()))));
        }
        results.push(("bincode".into(), silent(|| bincode::serde::decode_from_slice::<Map<u8, u32, M>, _>(&bytes, cfg).map(|x| x.0).map_err(|e| e.to_string()))));
        results.push(("value deserializer".into(), silent(|| Map::<u8, u32, M>::deserialize(MapDeserializer::<_, VErr>::new(entries.clone().into_iter())).map_err(|e| e.to_string()))));
        for (what, r) in results {
            out.st.checks += 1;
            // a deserializer may reject the input (Err) - C05 is about every container that comes back
            if let Ok(Ok(d)) = r {
                if let Some(v) = c05_invariants_map(&d, &what) {
                    if out.viol.is_none() {
                        out.viol = Some(v);
                    }
                }
            }
        }
    } else {
        let entries: Vec<u16> = case.ops.iter().map(|o| ((o[1] as usize * u) >> 8) as u16 * 257).collect();
        let mut distinct = entries.clone();
        distinct.sort_unstable();
        distinct.dedup();
        if distinct.len() > M {
            out.st.c05_skipped_overflow += 1;
            return out;
        }
        out.st.c05_streams += 1;
        let repeats = distinct.len() < entries.len();
        if repeats {
            out.st.c05_with_repeats += 1;
        }
        out.nontrivial = repeats && entries.len() >= 3;
        out.trace.push(format!("element stream {entries:?} -> Set<u16,{M}>"));
        let mut toks = vec![Tok::SeqStart(Some(entries.len()))];
        toks.extend(entries.iter().map(|k| Tok::U16(*k)));
        toks.push(Tok::SeqEnd);
        let mut bytes: Vec<u8> = (entries.len() as u64).to_le_bytes().to_vec();
        for k in &entries {
            bytes.extend_from_slice(&k.to_le_bytes());
        }
        let mut results: Vec<(String, Result<Result<Set<u16, M>, String>, String>)> = Vec::new();
        for hint in [true, false] {
            let mut de = TokDe::new(&toks, hint);
            results.push((format!("token stream (size hints {})", if hint { "exact" } else { "absent" }), silent(|| Set::<u16, M>::deserialize(&mut de).map_err(|e| e.to_string()))));
        }
        results.push(("bincode".into(), silent(|| bincode::serde::decode_from_slice::<Set<u16, M>, _>(&bytes, cfg).map(|x| x.0).map_err(|e| e.to_string()))));
        results.push(("value deserializer".into(), silent(|| Set::<u16, M>::deserialize(SeqDeserializer::<_, VErr>::new(entries.clone().into_iter())).map_err(|e| e.to_string()))));
        for (what, r) in results {
            out.st.checks += 1;
            if let Ok(Ok(d)) = r {
                if let Some(v) = c05_invariants_set(&d, &what) {
                    if out.viol.is_none() {
                        out.viol = Some(v);
                    }
                }
            }
        }
    }
    let _ = N;
    out
}

fn mix(a: u64, b: u64) -> u64 {
    let mut x = a ^ b.wrapping_mul(0x9E37_79B9_7F4A_7C15);
    x ^= x >> 30;
    x = x.wrapping_mul(0xBF58_476D_1CE4_E5B9);
    x ^= x >> 27;
    x = x.wrapping_mul(0x94D0_49BB_1331_11EB);
    x ^ (x >> 31)
}

fn verif_dir() -> PathBuf {
    std::env::var("VERIF_DIR").map(PathBuf::from).unwrap_or_else(|_| PathBuf::from("/verif"))
}

fn main() {
    std::panic::set_hook(Box::new(|_| {}));
    let mut args: Vec<String> = std::env::args().collect();
    // serdechk [C05|C20] quick|thorough|--replay <file>
    let mut pname = "C20";
    if args.get(1).map(|s| s == "C05" || s == "C20" || s == "C06").unwrap_or(false) {
        if args[1] == "C05" {
            pname = "C05";
            PROP05.store(true, std::sync::atomic::Ordering::Relaxed);
        }
        if args[1] == "C06" {
            pname = "C06";
            PROP06.store(true, std::sync::atomic::Ordering::Relaxed);
        }
        args.remove(1);
    }
    let c05 = pname == "C05";
    let c06 = pname == "C06";
    let mode = args.get(1).map(|s| s.as_str()).unwrap_or("quick");
    if mode == "--replay" {
        let path = args.get(2).expect("file");
        let t = std::fs::read_to_string(path).expect("read");
        let case = Case::from_text(&t).expect("parse");
        let out = run_case(&case);
        for l in &out.trace {
            println!("{l}");
        }
        if let Some(v) = out.viol {
            println!("violated: {v}");
            println!("VIOLATION property={pname} replay={path}");
            std::process::exit(1);
        }
        println!("replay: property {pname} held on this case");
        return;
    }
    let seed: u64 = std::env::var("VERIF_SEED").ok().and_then(|s| s.parse::<i64>().ok()).map(|x| x as u64).unwrap_or(1);
    let scale: f64 = std::env::var("VERIF_SCALE").ok().and_then(|s| s.parse().ok()).unwrap_or(1.0);
    let cases = ((if mode == "thorough" { 400_000.0 } else { 60_000.0 }) * scale) as u32;
    let t0 = Instant::now();
    let results: Vec<(u64, HashSet<u64>, Stats, Vec<Case>, Option<(Case, String)>)> = std::thread::scope(|sc| {
        let hs: Vec<_> = (0..16usize)
            .map(|wk| {
                sc.spawn(move || {
                    let cfg = Config { cases, failure_persistence: None, rng_seed: RngSeed::Fixed(mix(mix(seed, if c05 { 505 } else if c06 { 606 } else { 2020 }), wk as u64)), max_shrink_iters: 20000, ..Config::default() };
                    let mut runner = TestRunner::new(cfg);
                    let strat = (any::<bool>(), 0u8..6, 0u8..7, 0u8..4, proptest::collection::vec(any::<[u8; 3]>(), 0..=24), 0u8..96).prop_map(|(is_set, cap, dcap, us, ops, rj)| {
                        let n = SRC_CAPS[cap as usize];
                        let univ = match us {
                            0 => n.saturating_sub(1),
                            1 => n,
                            2 => n + 1,
                            _ => n + 3,
                        }
                        .max(1) as u8;
                        Case { is_set, cap, dcap, univ, ops, rejects: rj.saturating_sub(47) }
                    });
                    let evals = std::cell::Cell::new(0u64);
                    let nt = std::cell::RefCell::new(HashSet::new());
                    let st = std::cell::RefCell::new(Stats::default());
                    let samples = std::cell::RefCell::new(Vec::new());
                    let failed = std::cell::Cell::new(false);
                    let res = runner.run(&strat, |case| {
                        let out = run_case(&case);
                        if !failed.get() {
                            evals.set(evals.get() + 1);
                            let mut s = st.borrow_mut();
                            s.swap_removals += out.st.swap_removals;
                            s.len_ge2 += out.st.len_ge2;
                            s.diff_cap += out.st.diff_cap;
                            s.target_too_small += out.st.target_too_small;
                            s.bincode_roundtrips += out.st.bincode_roundtrips;
                            s.value_roundtrips += out.st.value_roundtrips;
                            s.token_roundtrips += out.st.token_roundtrips;
                            s.in_place += out.st.in_place;
                            s.rejected_decodes += out.st.rejected_decodes;
                            s.wide_roundtrips += out.st.wide_roundtrips;
                            s.kilo_roundtrips += out.st.kilo_roundtrips;
                            s.c05_streams += out.st.c05_streams;
                            s.c05_with_repeats += out.st.c05_with_repeats;
                            s.c05_skipped_overflow += out.st.c05_skipped_overflow;
                            s.checks += out.st.checks;
                            if out.nontrivial && nt.borrow_mut().insert(case.hash64()) && samples.borrow().len() < 2 {
                                samples.borrow_mut().push(case.clone());
                            }
                        }
                        match out.viol {
                            None => Ok(()),
                            Some(v) => {
                                failed.set(true);
                                Err(TestCaseError::fail(v))
                            }
                        }
                    });
                    let viol = match res {
                        Err(TestError::Fail(_, c)) => {
                            let v = run_case(&c).viol.unwrap_or_default();
                            Some((c, v))
                        }
                        _ => None,
                    };
                    (evals.get(), nt.into_inner(), st.into_inner(), samples.into_inner(), viol)
                })
            })
            .collect();
        hs.into_iter().map(|h| h.join().expect("worker")).collect()
    });
    let mut evals = 0;
    let mut nt: HashSet<u64> = HashSet::new();
    let mut st = Stats::default();
    let mut samples: Vec<Case> = vec![];
    let mut viol = None;
    for (e, n, s, sm, v) in results {
        evals += e;
        nt.extend(n);
        st.swap_removals += s.swap_removals;
        st.len_ge2 += s.len_ge2;
        st.diff_cap += s.diff_cap;
        st.target_too_small += s.target_too_small;
        st.bincode_roundtrips += s.bincode_roundtrips;
        st.value_roundtrips += s.value_roundtrips;
        st.token_roundtrips += s.token_roundtrips;
        st.in_place += s.in_place;
        st.rejected_decodes += s.rejected_decodes;
        st.wide_roundtrips += s.wide_roundtrips;
        st.kilo_roundtrips += s.kilo_roundtrips;
        st.c05_streams += s.c05_streams;
        st.c05_with_repeats += s.c05_with_repeats;
        st.c05_skipped_overflow += s.c05_skipped_overflow;
        st.checks += s.checks;
        if samples.len() < 3 {
            samples.extend(sm);
        }
        if viol.is_none() {
            viol = v;
        }
    }
    // thorough tier, C20 only: one round trip of containers holding more than 65535 entries
    // (counters and positions that do not fit 16 bits), on a thread with a stack that holds them
    let mut huge_done = 0u32;
    if mode == "thorough" && !c05 && !c06 && viol.is_none() {
        let c0 = Case { is_set: false, cap: 0, dcap: 0, univ: (seed % 200) as u8, ops: vec![[seed as u8, (seed >> 8) as u8, 3]], rejects: 0 };
        let c1 = c0.clone();
        let r = std::thread::Builder::new().stack_size(256 << 20).spawn(move || wide_rt::<66000, 66010>(&c1, 65540, 400)).expect("spawn").join();
        match r {
            Ok(None) => huge_done = 1,
            Ok(Some(v)) => viol = Some((c0, format!("(containers of more than 65535 entries; replay covers the smaller sizes only) {v}"))),
            Err(_) => println!("note: the 66000-slot round trip ended abnormally (not counted)"),
        }
    }
    // corpus replay
    let mut corpus = 0;
    if let Ok(rd) = std::fs::read_dir(verif_dir().join("corpus").join(if c05 { "C05-serde" } else if c06 { "C06-serde" } else { "C20" })) {
        let mut files: Vec<PathBuf> = rd.filter_map(|e| e.ok().map(|e| e.path())).collect();
        files.sort();
        for f in files {
            if let Some(c) = std::fs::read_to_string(&f).ok().and_then(|t| Case::from_text(&t)) {
                corpus += 1;
                evals += 1;
                let out = run_case(&c);
                if let (Some(v), None) = (out.viol, &viol) {
                    viol = Some((c, v));
                }
            }
        }
    }
    let wall = t0.elapsed().as_secs_f64();
    let mut replay = None;
    if let Some((c, v)) = &viol {
        let dir = verif_dir().join("replays");
        let _ = std::fs::create_dir_all(&dir);
        let p = dir.join(format!("{pname}-serde-{:016x}.case", c.hash64()));
        let out = run_case(c);
        let mut comments = vec![format!("violation: {v}")];
        comments.extend(out.trace);
        let _ = std::fs::write(&p, c.to_text(&comments));
        // a violation that depends on what this process did before (state kept by the library
        // across calls) does not show when the shrunk case runs alone: then the failing decodes
        // that precede the round trips are made part of the case itself
        let fresh = |path: &PathBuf| std::env::current_exe().ok().and_then(|exe| std::process::Command::new(exe).arg(pname).arg("--replay").arg(path).stdout(std::process::Stdio::null()).status().ok()).and_then(|s| s.code());
        if fresh(&p) == Some(0) {
            let mut c2 = c.clone();
            c2.rejects = 48;
            let p2 = dir.join(format!("{pname}-serde-{:016x}.case", c2.hash64()));
            let _ = std::fs::write(&p2, c2.to_text(&comments));
            if fresh(&p2) == Some(1) {
                let _ = std::fs::remove_file(&p);
                replay = Some(p2);
            } else {
                let _ = std::fs::remove_file(&p2);
                comments.push("did not reproduce when run alone in a fresh process: the violation depends on state the library accumulated over the earlier cases of the campaign".into());
                let _ = std::fs::write(&p, c.to_text(&comments));
                replay = Some(p);
            }
        } else {
            replay = Some(p);
        }
    }
    let sample_j: Vec<J> = samples
        .iter()
        .take(3)
        .map(|c| {
            let out = run_case(c);
            J::O(vec![
                ("container".into(), J::S(if c.is_set { "Set<u16,N>".into() } else { "Map<u8,u32,N>".to_string() })),
                ("source_capacity".into(), J::N(SRC_CAPS[c.cap as usize % 6] as f64)),
                ("target_capacity".into(), J::N(DST_CAPS[c.dcap as usize % 7] as f64)),
                ("ops".into(), J::N(c.ops.len() as f64)),
                ("trace".into(), J::A(out.trace.iter().map(|l| J::S(l.clone())).collect())),
            ])
        })
        .collect();
    // the same campaign in the other build profile (written by an earlier run of this check)
    let mut aux: Vec<(String, J)> = Vec::new();
    if let Ok(a) = std::env::var("VERIF_AUX_EVIDENCE") {
        let mut others: Vec<(String, J)> = Vec::new();
        for f in a.split(':').filter(|f| !f.is_empty()) {
            if let Ok(t) = std::fs::read_to_string(f) {
                let name = std::path::Path::new(f).file_name().map(|x| x.to_string_lossy().to_string()).unwrap_or_default();
                others.push((name, J::Raw(t)));
            }
        }
        if !others.is_empty() {
            aux.push(("other_profiles_same_run".into(), J::O(others)));
        }
    }
    let doc = J::O(vec![
        ("property_id".into(), J::S(pname.into())),
        ("tier".into(), J::S(mode.into())),
        ("seed".into(), J::N(seed as i64 as f64)),
        ("level".into(), J::S("exploration".into())),
        (
            "coverage".into(),
            J::O(vec![
                ("evaluations".into(), J::N(evals as f64)),
                ("distinct_nontrivial".into(), J::N(nt.len() as f64)),
                ("rule".into(), J::S(if c06 { "feature serde: the round trips of C20 (contents from generated histories, Map<u8,u32,N> / Set<u16,N>) under a counting global allocator: serialize into a byte slice, deserialize from a byte slice (bincode) and from a token stream with exact and with absent size hints, deserialize_in_place; every such call that succeeds must make zero allocator requests; non-trivial as C20; distinct = case hash".into() } else if c05 { "feature serde: generated entry / element streams WITH repeated keys (at most M distinct) deserialized into Map<u8,u32,M> / Set<u16,M> through a token-stream format (size hints exact and absent), bincode(legacy) bytes written by hand and serde's value deserializers; every container that comes back is checked against C05's standing invariants; non-trivial = stream of >= 3 entries with a repeated key; distinct = case hash".into() } else { "contents built by generated insert/remove histories (internal order varied) in Map<u8,u32,N> / Set<u16,N>, N in {0,1,2,3,5,8}, target capacity M in {0,1,2,3,5,8,12}; round trips through a recording Serializer + serde value deserializers and through bincode(legacy); non-trivial = len >= 2, state produced by >=1 swap-removal, M != N; distinct = case hash".to_string() })),
                ("samples".into(), J::A(if sample_j.is_empty() { vec![J::S("none".into())] } else { sample_j })),
                ("oracle_checks".into(), J::N(st.checks as f64)),
                ("value_deserializer_roundtrips".into(), J::N(st.value_roundtrips as f64)),
                ("bincode_roundtrips".into(), J::N(st.bincode_roundtrips as f64)),
                ("token_stream_roundtrips_with_and_without_size_hints".into(), J::N(st.token_roundtrips as f64)),
                ("deserialize_in_place_into_nonempty_targets".into(), J::N(st.in_place as f64)),
                ("failing_decodes_of_truncated_input_before_the_round_trips".into(), J::N(st.rejected_decodes as f64)),
                ("round_trips_of_containers_with_250_to_300_entries".into(), J::N(st.wide_roundtrips as f64)),
                ("round_trips_of_containers_with_1030_to_1500_entries".into(), J::N(st.kilo_roundtrips as f64)),
                ("round_trips_of_containers_with_more_than_65535_entries".into(), J::N(huge_done as f64)),
                ("profile".into(), J::S(if cfg!(debug_assertions) { "dev (debug assertions on)".into() } else { "release (debug assertions off)".to_string() })),
                ("cases_with_swap_removal".into(), J::N(st.swap_removals as f64)),
                ("cases_len_ge2".into(), J::N(st.len_ge2 as f64)),
                ("cases_target_capacity_differs".into(), J::N(st.diff_cap as f64)),
                ("cases_target_too_small_serialize_only".into(), J::N(st.target_too_small as f64)),
                ("corpus_cases_replayed".into(), J::N(corpus as f64)),
                ("c05_streams_deserialized".into(), J::N(st.c05_streams as f64)),
                ("c05_streams_with_repeated_keys".into(), J::N(st.c05_with_repeats as f64)),
                ("c05_streams_skipped_more_distinct_keys_than_capacity".into(), J::N(st.c05_skipped_overflow as f64)),
                ("exhaustive".into(), J::B(false)),
            ].into_iter().chain(aux).collect()),
        ),
        ("assumptions".into(), J::A(vec![J::S("payloads are u8/u16/u32 (serde without alloc); bincode legacy configuration; target capacity >= len only".into())])),
        ("wall_s".into(), J::N((wall * 1000.0).round() / 1000.0)),
        ("violations".into(), J::N(if viol.is_some() { 1.0 } else { 0.0 })),
    ]);
    let mut s = String::new();
    doc.write(&mut s, 0);
    s.push('\n');
    // C05's evidence file is written by the history runner; this part is attached to it
    let suffix = std::env::var("VERIF_EVIDENCE_SUFFIX").unwrap_or_default();
    let dir = if c05 || c06 || !suffix.is_empty() { std::env::var("VERIF_EVIDENCE_DIR").map(PathBuf::from).unwrap_or_else(|_| verif_dir().join("work")) } else { verif_dir().join("evidence") };
    let _ = std::fs::create_dir_all(&dir);
    let _ = std::fs::write(dir.join(if c05 { format!("C05.serde{suffix}.json") } else if c06 { format!("C06.serde{suffix}.json") } else { format!("C20{suffix}.json") }), s);
    println!("{pname} {mode} (serde feature): {evals} cases, {} distinct non-trivial, {} oracle checks, {wall:.1}s", nt.len(), st.checks);
    if let Some((_, v)) = viol {
        println!("violated: {v}");
        println!("VIOLATION property={pname} replay={}", replay.unwrap().display());
        std::process::exit(1);
    }
}
