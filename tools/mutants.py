#!/usr/bin/env python3
"""Sensitivity / neutrality runs.  tools/mutants.py [-j N] [--props C01,C02|all|target] <ids...|all|prop:C01|neutral>
Each mutant is applied to a scratch copy of /repo (never to /repo itself), must compile and
pass the pinned suite, then the harness (scratch copy pointing at the scratch repo) is built
and the checks are run.  Results: /verif/mutants/results.jsonl (one line per mutant run)."""
import sys, os, subprocess, json, shutil, time, threading, queue
sys.path.insert(0, '/verif/mutants')
import catalog
ROOT = '/tmp/mmx'
ENV = dict(os.environ, CARGO_NET_OFFLINE='true', RUST_BACKTRACE='0')

def sh(cmd, cwd=None, env=None, timeout=3600):
    p = subprocess.run(cmd, shell=True, cwd=cwd, env=env or ENV, stdout=subprocess.PIPE, stderr=subprocess.STDOUT, text=True, timeout=timeout)
    return p.returncode, p.stdout

def prep_slot(k):
    d = f'{ROOT}/slot{k}'
    os.makedirs(d, exist_ok=True)
    sh(f'rsync -rlpgoD --checksum --delete --exclude target --exclude .git /repo/ {d}/repo/')
    # a complete scratch copy of /verif whose harness points at the scratch repo
    sh(f"rsync -a --delete --exclude 'target*' --exclude .git --exclude work --exclude replays --exclude evidence --exclude 'mutants/results*' /verif/ {d}/verif/")
    sh(f"grep -rl '\"/repo\"' {d}/verif/harness {d}/verif/harness-serde {d}/verif/apiprobe --include=Cargo.toml | xargs sed -i 's#\"/repo\"#\"{d}/repo\"#'")
    return d

def run_mutant(m, d, props, scale):
    res = dict(id=m['id'], prop=m['prop'], note=m['note'], t=time.strftime('%H:%M:%S'))
    sh(f'rsync -rlpgoD --checksum --delete --exclude target --exclude .git /repo/ {d}/repo/')
    f = f"{d}/repo/{m['file']}"
    s = open(f).read()
    if s.count(m['old']) != 1:
        res['status'] = 'anchor-missing'; return res
    open(f, 'w').write(s.replace(m['old'], m['new']))
    env = dict(ENV, CARGO_TARGET_DIR=f'{d}/repo-target')
    rc, out = sh('cargo test --offline --lib 2>&1 | tail -n 30', cwd=f'{d}/repo', env=env)
    if 'test result: ok' not in out:
        res['status'] = 'compile-error' if 'test result' not in out else 'killed-by-pinned-suite'
        res['detail'] = out[-600:]
        return res
    env = dict(ENV, VERIF_SCALE=str(scale))
    env.pop('VERIF_DIR', None)
    fired, incon, details = [], [], {}
    for p in props:
        rc, out = sh(f'{d}/verif/check {p} quick', env=env, timeout=3000)
        if rc == 1 and 'VIOLATION' in out:
            fired.append(p)
            v = [l for l in out.splitlines() if l.startswith('violated:')]
            details[p] = v[0][:300] if v else ''
        elif rc != 0:
            incon.append(p); details[p] = f'rc={rc} ' + out[-300:]
    res.update(status='ran', fired=fired, inconclusive=incon, details=details)
    return res

def main():
    args = sys.argv[1:]
    j, props_sel, scale = 4, 'all', 1.0
    ids = []
    i = 0
    while i < len(args):
        if args[i] == '-j': j = int(args[i+1]); i += 2
        elif args[i] == '--props': props_sel = args[i+1]; i += 2
        elif args[i] == '--scale': scale = float(args[i+1]); i += 2
        else: ids.append(args[i]); i += 1
    allp = [f'C{n:02d}' for n in range(1, 21)]
    sel = []
    for m in catalog.M:
        if m['old'] == 'SKIP' or m['note'] in ('SKIP', 'BAD-UB', 'TYPE-MISMATCH?'): continue
        if 'all' in ids or m['id'] in ids or f"prop:{m['prop']}" in ids or (m['prop'] == 'neutral' and 'neutral' in ids):
            sel.append(m)
    q = queue.Queue()
    for m in sel: q.put(m)
    lock = threading.Lock()
    outp = '/verif/mutants/results.jsonl'
    def worker(k):
        d = prep_slot(k)
        while True:
            try: m = q.get_nowait()
            except queue.Empty: return
            if props_sel == 'all': props = allp
            elif props_sel == 'target': props = allp if m['prop'] == 'neutral' else [m['prop']]
            else: props = props_sel.split(',')
            try: r = run_mutant(m, d, props, scale)
            except Exception as e: r = dict(id=m['id'], status='error', detail=str(e))
            with lock:
                with open(outp, 'a') as f: f.write(json.dumps(r) + '\n')
                tgt = m['prop']
                ok = ''
                if r.get('status') == 'ran':
                    if tgt == 'neutral': ok = 'SILENT' if not r['fired'] else 'FALSE-ALARM'
                    else: ok = 'KILLED' if tgt in r['fired'] else 'SURVIVED'
                print(f"{m['id']:45s} {r.get('status'):22s} {ok:12s} fired={','.join(r.get('fired', []))} incon={','.join(r.get('inconclusive', []))}", flush=True)
    ts = [threading.Thread(target=worker, args=(k,)) for k in range(j)]
    for t in ts: t.start()
    for t in ts: t.join()

main()
