#!/bin/bash
# The runner died abnormally. Each worker journals the case it is about to execute; re-run
# every journaled case alone in a fresh process: one that dies again is the replay file.
bin="$1"; PROP="$2"
# Only the properties that state memory safety / ownership own a crash. For the others the
# property itself was not observed to fail: the check could not decide.
case "$PROP" in C02|C03|C04|C17|C18) ;; *)
  # Retry without the heap-owning payload kind: with ledger-tracked and plain payloads a double
  # drop or a stale slot is recorded instead of killing the process, so the property's own oracle
  # can decide. Whatever that run reports is about the real code; only if it dies as well is the
  # check inconclusive.
  echo "note: the runner was killed (memory corruption or abort inside the library); re-running $PROP without heap-owning payloads"
  shift 2
  env "$@" VERIF_SAFE_KINDS=1 timeout 3600 "$bin" "$PROP" "${VERIF_MODE:-quick}"; rc=$?
  if [ $rc -le 1 ]; then exit $rc; fi
  echo "INCONCLUSIVE: the runner was killed (memory corruption or abort inside the library) before property $PROP could be decided"; exit 2 ;;
esac
J="$VERIF_DIR/work/journal-$PROP"
found=0
for f in "$J"/*.case; do
  [ -f "$f" ] || continue
  timeout 120 "$bin" "$PROP" --replay "$f" >/dev/null 2>&1; rc=$?
  if [ $rc -gt 2 ] || [ $rc -eq 1 ]; then
    mkdir -p "$VERIF_DIR/replays"; dst="$VERIF_DIR/replays/$PROP-crash-$(basename "$f")"; cp "$f" "$dst"
    echo "violated: executing this case kills the process (status $rc): memory corruption or abort inside the library"
    echo "VIOLATION property=$PROP replay=$dst"; found=1; break
  fi
done
[ $found -eq 1 ] && exit 1
echo "INCONCLUSIVE: the runner ended abnormally and no journaled case reproduces it"; exit 2
