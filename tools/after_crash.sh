#!/bin/bash
# The runner died abnormally. Each worker journals the case it is about to execute; re-run
# every journaled case alone in a fresh process: one that dies again is the replay file.
bin="$1"; PROP="$2"
# Only the properties that state memory safety / ownership own a crash. For the others the
# property itself was not observed to fail: the check could not decide.
case "$PROP" in C02|C03|C04|C17|C18) ;; *)
  echo "INCONCLUSIVE: the runner was killed (memory corruption or abort inside the library) before property $PROP could be decided"; exit 2 ;;
esac
J="$VERIF_DIR/work/journal-$PROP"
found=0
for f in "$J"/*.case; do
  [ -f "$f" ] || continue
  timeout 120 "$bin" "$PROP" --replay "$f" >/dev/null 2>&1; rc=$?
  if [ $rc -gt 2 ] || [ $rc -eq 1 ]; then
    mkdir -p "$VERIF_DIR/replays"; dst="$VERIF_DIR/replays/$PROP-crash-$(basename "$f")"; cp "$f" "$dst"
    echo "violated: executing this case kills the process (status $rc): memory corruption or abort inside the library"
    echo "VIOLATION property=$PROP replay=$dst"; found=1; break
  fi
done
[ $found -eq 1 ] && exit 1
echo "INCONCLUSIVE: the runner ended abnormally and no journaled case reproduces it"; exit 2
