#!/bin/bash
# The runner died abnormally. Each worker journals the case it is about to execute; re-run
# every journaled case alone in a fresh process: one that dies again is the replay file.
bin="$1"; PROP="$2"
# Only the properties that state memory safety / ownership own a crash. For the others the
# property itself was not observed to fail: the check could not decide.
case "$PROP" in C02|C03|C04|C17|C18) ;; *)
  # Retry without the heap-owning payload kind: with ledger-tracked and plain payloads a double
  # drop or a stale slot is recorded instead of killing the process, so the property's own oracle
  # can decide. Whatever that run reports is about the real code; only if it dies as well is the
  # check inconclusive.
  echo "note: the runner was killed (memory corruption or abort inside the library); re-running $PROP without heap-owning payloads"
  shift 2
  env "$@" VERIF_SAFE_KINDS=1 timeout 3600 "$bin" "$PROP" "${VERIF_MODE:-quick}"; rc=$?
  if [ $rc -le 1 ]; then exit $rc; fi
  # Died again. The statements of these properties say what particular calls return; a call that
  # kills the process returns nothing. Re-run every journaled case alone, with the operation in
  # flight named on stderr: a case that kills a fresh process *inside an operation the property
  # is about* is a violation of that property (the case file is the replay); a death anywhere
  # else leaves the property undecided.
  case "$PROP" in
    C01) OWN="insert insert_key_value checked_insert get get_mut get_key_value contains_key index index_mut remove remove_entry retain clear drain" ;;
    C07) OWN="insert replace contains get remove take retain clear drain extend" ;;
    C09) OWN="walk" ;;
    C10) OWN="consume drain" ;;
    C11) OWN="entry" ;;
    C13) OWN="get_disjoint_mut disjoint_sweep" ;;
    C14) OWN="eq" ;;
    C15) OWN="clone" ;;
    C16) OWN="from_iter extend" ;;
    C19) OWN="fmt" ;;
    *) OWN="" ;;
  esac
  if [ -n "$OWN" ]; then
    for f in "$VERIF_DIR/work/journal-$PROP"/*.case; do
      [ -f "$f" ] || continue
      VERIF_MARK=1 timeout 120 "$bin" "$PROP" --replay "$f" >/dev/null 2>"$VERIF_DIR/work/marks-$PROP.txt"; r2=$?
      if [ $r2 -gt 2 ] && [ $r2 -ne 124 ]; then
        op=$(grep '^op-in-flight: ' "$VERIF_DIR/work/marks-$PROP.txt" | tail -n 1 | awk '{print $3}')
        for o in $OWN; do
          if [ "$o" = "$op" ]; then
            mkdir -p "$VERIF_DIR/replays"; dst="$VERIF_DIR/replays/$PROP-crash-$(basename "$f")"; cp "$f" "$dst"
            echo "violated: executing this case kills the process (status $r2) inside the operation '$op' (step $(grep '^op-in-flight: ' "$VERIF_DIR/work/marks-$PROP.txt" | tail -n 1 | awk '{print $2}')): the call returns nothing, whatever $PROP says it returns"
            echo "VIOLATION property=$PROP replay=$dst"; exit 1
          fi
        done
      fi
    done
  fi
  echo "INCONCLUSIVE: the runner was killed (memory corruption or abort inside the library) before property $PROP could be decided"; exit 2 ;;
esac
J="$VERIF_DIR/work/journal-$PROP"
found=0
for f in "$J"/*.case; do
  [ -f "$f" ] || continue
  timeout 120 "$bin" "$PROP" --replay "$f" >/dev/null 2>&1; rc=$?
  if [ $rc -gt 2 ] || [ $rc -eq 1 ]; then
    mkdir -p "$VERIF_DIR/replays"; dst="$VERIF_DIR/replays/$PROP-crash-$(basename "$f")"; cp "$f" "$dst"
    echo "violated: executing this case kills the process (status $rc): memory corruption or abort inside the library"
    echo "VIOLATION property=$PROP replay=$dst"; found=1; break
  fi
done
[ $found -eq 1 ] && exit 1
echo "INCONCLUSIVE: the runner ended abnormally and no journaled case reproduces it"; exit 2
