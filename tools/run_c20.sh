#!/bin/bash
# C20: separate crate (micromap with feature serde), decided in both build profiles.
set -u
MODE="$1"; ARG="${2:-}"
H="$VERIF_DIR/harness-serde"; LOG="$VERIF_DIR/work/build-C20.log"; mkdir -p "$VERIF_DIR/work"
build() { ( cd "$H" && flock "$VERIF_DIR/work/.build20.lock" cargo build $1 ) >"$LOG" 2>&1 || { echo "INCONCLUSIVE: serdechk does not build against /repo's current tree (see $LOG)"; tail -n 25 "$LOG"; exit 2; }; }
guard() { local rc=$1
  if [ $rc -eq 124 ]; then echo "INCONCLUSIVE: watchdog expired"; exit 2; fi
  if [ $rc -gt 2 ]; then echo "INCONCLUSIVE: serdechk ended abnormally (status $rc)"; exit 2; fi
  [ $rc -ne 0 ] && exit $rc; }
if [ "$MODE" = "--replay" ]; then
  build --release; timeout 300 "$H/target/release/serdechk" --replay "$ARG"; rc=$?; guard $rc
  build ""; timeout 300 "$H/target/debug/serdechk" --replay "$ARG"; rc=$?; guard $rc
  exit 0
fi
build ""
VERIF_EVIDENCE_SUFFIX=.dev VERIF_EVIDENCE_DIR="$VERIF_DIR/work" timeout 3600 "$H/target/debug/serdechk" "$MODE"; guard $?
build --release
VERIF_AUX_EVIDENCE="$VERIF_DIR/work/C20.dev.json" timeout 3600 "$H/target/release/serdechk" "$MODE"; guard $?
exit 0
