#!/bin/bash
# C20: separate crate (micromap with feature serde).
set -u
MODE="$1"; ARG="${2:-}"
H="$VERIF_DIR/harness-serde"; LOG="$VERIF_DIR/work/build-C20.log"; mkdir -p "$VERIF_DIR/work"
( cd "$H" && flock "$VERIF_DIR/work/.build20.lock" cargo build --release ) >"$LOG" 2>&1 || { echo "INCONCLUSIVE: serdechk does not build against /repo's current tree (see $LOG)"; tail -n 25 "$LOG"; exit 2; }
BIN="$H/target/release/serdechk"
if [ "$MODE" = "--replay" ]; then timeout 300 "$BIN" --replay "$ARG"; rc=$?; else timeout 3600 "$BIN" "$MODE"; rc=$?; fi
if [ $rc -eq 124 ]; then echo "INCONCLUSIVE: watchdog expired"; exit 2; fi
if [ $rc -gt 2 ]; then echo "INCONCLUSIVE: serdechk ended abnormally (status $rc)"; exit 2; fi
exit $rc
