#!/bin/bash
# api_probe.sh Cxx : type-check /verif/apiprobe (feature cxx) against /repo's current tree.
# The instantiations a statement quantifies over ("any key and value type", "any capacities",
# "every content") must exist; a narrowed trait bound breaks the statement at compile time, where
# no generated case can reach it. Exit 0 held, 1 VIOLATION (trait-resolution errors located in the
# probe while the library itself builds), 2 INCONCLUSIVE (anything else).
set -u
P="$1"; f=$(echo "$P" | tr 'C' 'c')
grep -q "^$f = " "$VERIF_DIR/apiprobe/Cargo.toml" || exit 0
W="$VERIF_DIR/work"; mkdir -p "$W" "$VERIF_DIR/replays"
LOG="$W/apiprobe-$P.log"; rm -f "$W/apiprobe-$P.json"
( cd "$VERIF_DIR/apiprobe" && flock "$W/.buildapi.lock" cargo check --offline --features "$f" --message-format short ) >"$LOG" 2>&1
rc=$?
if [ $rc -eq 0 ]; then
  echo "$P api probe: the generic instantiations the statement quantifies over type-check (apiprobe feature $f)"
  # what was probed: the bound-asserting calls inside the function / module of this feature
  n=$(awk -v f="$f" '/^#\[cfg\(feature = "/ {on = index($0, "\"" f "\"") > 0} on && /^[ ]+(clone|exact|yields|debug|display|peq|eq|ser|de|owned)(::<[^>]*>+)?\(|clone_from\(|::deserialize\(/ {c++} END {print c+0}' "$VERIF_DIR/apiprobe/src/lib.rs")
  echo "{\"probe\":\"type-level api probe (cargo check of /verif/apiprobe, feature $f)\",\"result\":\"type-checks\",\"instantiations_asserted\":$n}" > "$W/apiprobe-$P.json"
  exit 0
fi
# the library itself (or a dependency) failing to build is not this property's business
if grep -q "could not compile \`micromap\`\|could not compile \`serde\|No space left\|failed to load\|failed to select a version\|no matching package" "$LOG"; then
  echo "INCONCLUSIVE: the api probe could not be built for reasons outside the probe (see $LOG)"; tail -n 15 "$LOG"; exit 2
fi
# errors must be trait-resolution / bound errors located in the probe's own source
if grep -q "^src/lib.rs:[0-9]*:[0-9]*: error\[E0\(277\|599\|308\|271\|282\|283\|369\|107\|061\)\]\|^src/lib.rs:[0-9]*:[0-9]*: error: implementation of .* is not general enough" "$LOG"; then
  R="$VERIF_DIR/replays/$P-apiprobe.txt"
  { echo "apiprobe $P"; echo "# the instantiations named below no longer exist on /repo's tree (cargo check --features $f in /verif/apiprobe):"; grep "^src/lib.rs:.*error" "$LOG"; } > "$R"
  grep "^src/lib.rs:.*error" "$LOG" | head -n 8
  echo "violated: a generic instantiation that $P quantifies over does not type-check any more (see $R)"
  echo "VIOLATION property=$P replay=$R"
  exit 1
fi
echo "INCONCLUSIVE: the api probe does not build, for a reason that is not a trait-bound error in the probe (see $LOG)"; tail -n 15 "$LOG"; exit 2
