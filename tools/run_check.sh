#!/bin/bash
# Build (from /repo's current working tree) and run one property check.
set -u
PROP="$1"; MODE="$2"; ARG="${3:-}"
H="$VERIF_DIR/harness"
LOG="$VERIF_DIR/work/build-$PROP.log"; mkdir -p "$VERIF_DIR/work" "$VERIF_DIR/evidence" "$VERIF_DIR/replays"

build() { # profile-flag target-subdir
  local flag="$1"
  ( cd "$H" && flock "$VERIF_DIR/work/.build.lock" cargo build $flag -p runner ) >"$LOG" 2>&1
  if [ $? -ne 0 ]; then
    echo "INCONCLUSIVE: the harness does not build against /repo's current tree (see $LOG)"; tail -n 25 "$LOG"; exit 2
  fi
}

# every property is decided in both build profiles: dev (micromap's debug assertions and
# integer-overflow checks on) and release (off). Regressions hidden behind debug_assert!, or
# present only where the release profile lacks a check, show in exactly one of the two.
DEV=1
STD=1
# VERIF_PROFILES=release (never set by the registered commands; used by tools/seeded.py when the
# same patch has to be tried against all twenty checks quickly): only the release configuration
if [ "${VERIF_PROFILES:-all}" = "release" ]; then DEV=0; STD=0; fi

if [ "$MODE" = "--replay" ] && head -n 1 "$ARG" 2>/dev/null | grep -q "^apiprobe"; then
  exec "$VERIF_DIR/tools/api_probe.sh" "$PROP"
fi
if [ "$PROP" = "C20" ]; then
  if [ "$MODE" != "--replay" ]; then "$VERIF_DIR/tools/api_probe.sh" "$PROP"; rc=$?; [ $rc -ne 0 ] && exit $rc; fi
  "$VERIF_DIR/tools/run_c20.sh" "$MODE" "$ARG"; rc=$?
  [ $rc -eq 0 ] && [ "$MODE" != "--replay" ] && python3 "$VERIF_DIR/tools/merge_probes.py" "$VERIF_DIR/evidence/C20.json" "$VERIF_DIR/work/apiprobe-C20.json"
  exit $rc
fi

# C05 and C06 also cover the optional serde feature (deserializing is an operation like any
# other: it keeps the standing invariants, and it takes nothing from the allocator): that part
# runs in the separate serde-enabled crate.
serde_part() { # mode [file]
  local HS="$VERIF_DIR/harness-serde" L="$VERIF_DIR/work/build-$PROP-serde.log"
  ( cd "$HS" && flock "$VERIF_DIR/work/.build20.lock" cargo build --release ) >"$L" 2>&1 || { echo "INCONCLUSIVE: serdechk does not build against /repo's current tree (see $L)"; tail -n 25 "$L"; exit 2; }
  ( cd "$HS" && flock "$VERIF_DIR/work/.build20.lock" cargo build ) >>"$L" 2>&1 || { echo "INCONCLUSIVE: serdechk (dev) does not build against /repo's current tree (see $L)"; tail -n 25 "$L"; exit 2; }
  local rc
  if [ "$1" = "--replay" ]; then
    timeout 300 "$HS/target/release/serdechk" "$PROP" --replay "$2"; rc=$?
    [ $rc -eq 0 ] && { timeout 300 "$HS/target/debug/serdechk" "$PROP" --replay "$2"; rc=$?; }
  else
    VERIF_EVIDENCE_SUFFIX=.dev VERIF_EVIDENCE_DIR="$VERIF_DIR/work" timeout 3600 "$HS/target/debug/serdechk" "$PROP" "$1"; rc=$?
    [ $rc -eq 0 ] && { VERIF_EVIDENCE_DIR="$VERIF_DIR/work" VERIF_AUX_EVIDENCE="$VERIF_DIR/work/$PROP.serde.dev.json" timeout 3600 "$HS/target/release/serdechk" "$PROP" "$1"; rc=$?; }
  fi
  if [ $rc -eq 124 ]; then echo "INCONCLUSIVE: watchdog expired (serde part)"; exit 2; fi
  if [ $rc -gt 2 ]; then echo "INCONCLUSIVE: serdechk ended abnormally (status $rc)"; exit 2; fi
  return $rc
}

build --release
REL="$H/target/release/runner"
if [ "$MODE" = "--replay" ] && { [ "$PROP" = "C05" ] || [ "$PROP" = "C06" ]; } && head -n 1 "$ARG" 2>/dev/null | grep -q "^serdecase"; then
  serde_part --replay "$ARG"; exit $?
fi
if [ "$MODE" = "--replay" ]; then
  timeout 600 "$REL" "$PROP" --replay "$ARG"; rc=$?
  if [ $rc -eq 0 ] && [ $DEV -eq 1 ]; then build ""; timeout 600 "$H/target/debug/runner" "$PROP" --replay "$ARG"; rc=$?; fi
  if [ $rc -gt 2 ] && [ $rc -ne 124 ]; then
    # a case file written by the crash triage (tools/after_crash.sh): dying again is the violation
    case "$(basename "$ARG")" in *-crash-*) echo "violated: executing this case kills the process (status $rc)"; echo "VIOLATION property=$PROP replay=$ARG"; exit 1 ;; esac
  fi
  [ $rc -gt 2 ] && { echo "INCONCLUSIVE: replay ended abnormally (status $rc)"; exit 2; }
  exit $rc
fi

# type-level part (C09, C10, C14, C15, C19): the instantiations the statement quantifies over exist
"$VERIF_DIR/tools/api_probe.sh" "$PROP"; rc=$?
[ $rc -ne 0 ] && exit $rc

WATCHDOG=1800; [ "$MODE" = "thorough" ] && WATCHDOG=14400
run() { # binary, extra env...
  local bin="$1"; shift
  env "$@" timeout $WATCHDOG "$bin" "$PROP" "$MODE"; local rc=$?
  if [ $rc -eq 124 ]; then echo "INCONCLUSIVE: watchdog ($WATCHDOG s) expired"; exit 2; fi
  if [ $rc -gt 2 ]; then
    # abnormal end (signal / abort): journaled case decides
    VERIF_MODE="$MODE" "$VERIF_DIR/tools/after_crash.sh" "$bin" "$PROP" "$@"; rc=$?
    # a clean pass of the retry counts as a pass of this profile; go on with the next one
    [ $rc -ne 0 ] && exit $rc
    return 0
  fi
  return $rc
}

AUX=""
if [ "$PROP" = "C05" ] || [ "$PROP" = "C06" ]; then
  rm -f "$VERIF_DIR/work/$PROP.serde.json"
  serde_part "$MODE"; rc=$?
  [ $rc -ne 0 ] && exit $rc
  AUX="$VERIF_DIR/work/$PROP.serde.json"
fi
if [ $DEV -eq 1 ]; then
  build ""
  run "$H/target/debug/runner" VERIF_EVIDENCE_SUFFIX=.dev VERIF_EVIDENCE_DIR="$VERIF_DIR/work"; rc=$?
  [ $rc -ne 0 ] && exit $rc
  AUX="${AUX:+$AUX:}$VERIF_DIR/work/$PROP.dev.json"
fi
if [ "$PROP" = "C06" ]; then
  "$VERIF_DIR/tools/nostd_probe.sh"; rc=$?
  [ $rc -ne 0 ] && exit $rc
fi
if [ $STD -eq 1 ]; then
  # the crate's other configuration: feature `std` on (the default harness build has it off,
  # i.e. #![no_std] in effect). Every property is decided in both; for C06 in particular zero
  # allocator calls and in-container references must hold with and without std.
  ( cd "$H" && flock "$VERIF_DIR/work/.build.lock" cargo build --release -p runner --features mmstd --target-dir "$H/target-std" ) >"$VERIF_DIR/work/build-$PROP-std.log" 2>&1 || { echo "INCONCLUSIVE: the harness does not build with micromap's std feature (see work/build-$PROP-std.log)"; tail -n 25 "$VERIF_DIR/work/build-$PROP-std.log"; exit 2; }
  run "$H/target-std/release/runner" VERIF_EVIDENCE_SUFFIX=.std VERIF_EVIDENCE_DIR="$VERIF_DIR/work" VERIF_PROFILE_NOTE="release, micromap feature std ON"; rc=$?
  [ $rc -ne 0 ] && exit $rc
  AUX="${AUX:+$AUX:}$VERIF_DIR/work/$PROP.std.json"
fi
run "$REL" VERIF_AUX_EVIDENCE="$AUX"; rc=$?
[ $rc -ne 0 ] && exit $rc
python3 "$VERIF_DIR/tools/merge_probes.py" "$VERIF_DIR/evidence/$PROP.json" "$VERIF_DIR/work/apiprobe-$PROP.json" $([ "$PROP" = "C06" ] && echo "$VERIF_DIR/work/nostd-probe.json")
if [ "$MODE" = "thorough" ] && [ -x "$VERIF_DIR/tools/thorough_extra.sh" ]; then
  "$VERIF_DIR/tools/thorough_extra.sh" "$PROP"; rc=$?
  [ $rc -ne 0 ] && exit $rc
fi
exit 0
