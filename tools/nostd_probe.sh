#!/bin/bash
# C06, last clause ("the crate builds without the standard library"). A fact about one build
# configuration, not about inputs, so this is a fixed probe attached to the C06 check (the image
# has no no_std target installed): build the library from /repo's working tree in both profiles (release, dev) with default
# features (feature std off) and with feature serde, and list the external crates the compiled
# rlib links against. A `std` dependency is a violation; an `alloc` dependency is reported (the
# allocation oracle of the generated runs decides whether any operation actually allocates).
set -u
W="$VERIF_DIR/work/nostd-probe"; mkdir -p "$W"
# the tree under test is the one the harness is built against (/repo; a scratch copy when the
# whole of /verif runs against a scratch copy)
REPO=$(sed -n 's/^micromap *= *{ *path *= *"\([^"]*\)".*/\1/p' "$VERIF_DIR/harness/base/Cargo.toml" | head -n 1); REPO=${REPO:-/repo}
LOG="$W/probe.log"; : > "$LOG"; rm -f "$VERIF_DIR/work/nostd-probe.json"
bad=0
for prof in release dev; do
for feat in "" "serde"; do
  T="$W/t-${feat:-default}"
  pf="--release"; pd="release"; [ "$prof" = "dev" ] && { pf=""; pd="debug"; }
  if ! ( cd "$REPO" && CARGO_NET_OFFLINE=true cargo +nightly build --offline --lib $pf ${feat:+--features $feat} --target-dir "$T" ) >>"$LOG" 2>&1; then
    echo "INCONCLUSIVE: the library does not build with nightly for the no_std probe (see $LOG)"; tail -n 15 "$LOG"; exit 2
  fi
  deps=$(rustc +nightly -Zls=root "$T/$pd/libmicromap.rlib" 2>>"$LOG" | sed -n '/External Dependencies/,/^$/p' | awk 'NR>1 && NF {print $2}' | sed 's/-[0-9a-f]*$//' | tr '\n' ' ')
  echo "no_std probe (profile $prof, features: ${feat:-none}): the rlib links against: $deps" | tee -a "$LOG"
  for d in $deps; do
    case "$d" in
      std) echo "violated: in the $prof profile with features [${feat:-none}] the library links against std (it does not build without the standard library)"; bad=1 ;;
      alloc) echo "note: in the $prof profile with features [${feat:-none}] the library links against alloc" ;;
    esac
  done
done
done
if [ $bad -eq 1 ]; then echo "VIOLATION property=C06 replay=$LOG"; exit 1; fi
echo "{\"probe\":\"no_std link probe (rustc -Zls of the rlib; profiles release and dev; features none and serde)\",\"result\":\"no std dependency\",\"configurations\":4}" > "$VERIF_DIR/work/nostd-probe.json"
exit 0
