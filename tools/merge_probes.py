#!/usr/bin/env python3
"""merge_probes.py <evidence.json> <probe.json>... : record the fixed probes that ran with this check
under coverage.fixed_probes of the evidence file the runner wrote."""
import json, sys, os
ev = sys.argv[1]
if not os.path.exists(ev): sys.exit(0)
d = json.load(open(ev))
pr = []
for f in sys.argv[2:]:
    if os.path.exists(f):
        try: pr.append(json.load(open(f)))
        except Exception: pass
if pr:
    d.setdefault('coverage', {})['fixed_probes'] = pr
    json.dump(d, open(ev, 'w'), indent=1)
