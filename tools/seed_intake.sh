#!/bin/bash
# seed_intake.sh Cxx a|b "<demo_cmd>" "<suite_cmd>" : copy a sub-agent's seeded change into /verif/seeded/Cxx-a/
P="$1"; X="$2"; DEMO="${3:-cargo test --offline --test seed_demo}"; SUITE="${4:-cargo test --offline}"
S=${SEEDSRC:-/tmp/seedout}/$P/$X; D=/verif/seeded/$P-${AS:-$X}
[ -f "$S/patch.diff" ] || { echo "no $S/patch.diff"; exit 1; }
mkdir -p "$D"; cp "$S/patch.diff" "$S/seed_demo.rs" "$D"/; cp "$S/notes.md" "$D"/ 2>/dev/null
python3 - "$P" "$X" "$DEMO" "$SUITE" <<'PY'
import json,sys,os
p,x,demo,suite=sys.argv[1:5]
d=f"/verif/seeded/{p}-{os.environ.get('AS',x)}"
f=f'{d}/meta.json'
m=json.load(open(f)) if os.path.exists(f) else {}
m.update(property=p, origin=f'independent sub-agent given only the text of {p} and a scratch worktree', demo_cmd=demo, suite_cmd=suite)
m.setdefault('needs_to_manifest','(see notes.md)')
m.setdefault('what_was_run','tools/seeded.py: demo on unchanged tree (pass), pinned suite with patch (pass), demo with patch (fail), then the checks')
json.dump(m,open(f,'w'),indent=1)
PY
echo "$D: $(grep -c '^diff' $D/patch.diff) file(s): $(grep '^diff' $D/patch.diff | sed 's/.* b\///' | tr '\n' ' ')"
