#!/bin/bash
# neutral_intake.sh Cxx a|b : copy a behaviour-preserving refactoring written by a sub-agent into /verif/neutral/Cxx-a/
P="$1"; X="$2"; S=${NEUTSRC:-/tmp/neutout}/$P/$X; D=/verif/neutral/$P-${AS:-$X}
[ -f "$S/patch.diff" ] || { echo "no $S/patch.diff"; exit 1; }
mkdir -p "$D"; cp "$S/patch.diff" "$S/neutral_demo.rs" "$S/notes.md" "$D"/ 2>/dev/null
SUITE="cargo test --offline"; DEMO="cargo test --offline --test neutral_demo"
if [ "$P" = "C20" ]; then SUITE="cargo test --offline --features serde"; DEMO="cargo test --offline --features serde --test neutral_demo"; fi
python3 - "$P" "$X" "$DEMO" "$SUITE" <<'PY'
import json,sys
p,x,demo,suite=sys.argv[1:5]
json.dump(dict(property=p, kind='neutral refactoring: the property and the documented behaviour still hold; every check must stay silent',
  origin=f'independent sub-agent given only the text of {p} and a scratch worktree, asked for a substantial behaviour-preserving refactoring',
  demo_cmd=demo, suite_cmd=suite, what_was_run='tools/seeded.py --neutral: pinned suite with the patch (debug and release), the agent\'s own demonstration with the patch, then all twenty quick checks'),
  open(f"/verif/neutral/{p}-{__import__('os').environ.get('AS',x)}/meta.json",'w'), indent=1)
PY
echo "$D: $(grep -c '^diff' $D/patch.diff) file(s), $(wc -l < $D/patch.diff) lines"
