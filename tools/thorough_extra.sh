#!/bin/bash
# Thorough-tier extras: the same generated cases executed on two more platforms that turn
# silent corruption into a visible failure: Miri (sample) and AddressSanitizer + libFuzzer.
set -u
PROP="$1"
H="$VERIF_DIR/harness"; W="$VERIF_DIR/work"; mkdir -p "$W"
SEED="${VERIF_SEED:-1}"
REL="$H/target/release/runner"
case "$PROP" in
  C02|C04|C17) MIRI=1; FUZZ=1; FUZZO=0 ;;
  C03) MIRI=1; FUZZ=1; FUZZO=1 ;;
  C01|C05|C18) MIRI=0; FUZZ=1; FUZZO=0 ;;
  *) exit 0 ;;
esac
# engines the fuzz campaigns are run for (each with its own corpus and processes)
case "$PROP" in
  C02|C03|C04|C05|C17) ENGINES="maphist sethist" ;;
  *) ENGINES="maphist" ;;
esac
ENGINE=maphist
rm -f "$W/extra-$PROP.jsonl"
memprop() { case "$PROP" in C02|C03|C04|C17|C18) return 0 ;; *) return 1 ;; esac; }

if [ $MIRI -eq 1 ]; then
  D="$W/miri-$PROP"; rm -rf "$D"; mkdir -p "$D"
  N=60; [ "$PROP" = "C04" ] && N=24
  VERIF_DUMP_SMALL=1 "$REL" "$PROP" --dump "$D" $((N * 3)) >/dev/null
  ls "$D"/*.case 2>/dev/null | tail -n +$((N + 1)) | xargs -r rm -f
  cp "$VERIF_DIR"/corpus/$PROP/*.case "$D"/ 2>/dev/null
  LOG="$W/miri-$PROP.log"
  ( cd "$H" && MIRIFLAGS="-Zmiri-disable-isolation" CARGO_TARGET_DIR="$H/target-miri" timeout 3600 cargo +nightly miri run -p runner -- "$PROP" --replay-dir "$D" 40 ) >"$LOG" 2>&1
  rc=$?
  if grep -q "^VIOLATION property=" "$LOG"; then grep -E "^(violated:|VIOLATION)" "$LOG"; exit 1; fi
  if [ $rc -eq 124 ]; then echo "miri sample: time budget hit (inconclusive part, not a violation)";
  elif [ $rc -ne 0 ]; then
    last=$(grep "^case: " "$LOG" | tail -n 1 | sed 's/^case: //')
    if grep -q "Undefined Behavior" "$LOG" && [ -n "$last" ]; then
      dst="$VERIF_DIR/replays/$PROP-miri-$(basename "$last")"; cp "$last" "$dst"
      echo "violated: Miri reports undefined behaviour while executing this case: $(grep -m1 'Undefined Behavior' "$LOG")"
      echo "VIOLATION property=$PROP replay=$dst"; exit 1
    fi
    echo "INCONCLUSIVE: the Miri run failed without an Undefined Behavior report (see $LOG)"; tail -n 5 "$LOG"; exit 2
  else
    grep "^replay-dir:" "$LOG" | sed 's/^/miri: /'
  fi
  echo "{\"platform\":\"Miri (cargo +nightly miri run, replay of dumped generated cases)\",\"cases_started\":$(grep -c '^case: ' "$LOG"),\"completed\":$([ $rc -eq 0 ] && echo true || echo false)}" >> "$W/extra-$PROP.jsonl"
fi

fuzz_campaign() { # flags suffix
  local flags="$1" tdir="$2" label="$3"
  local LOG="$W/fuzzbuild-$label.log"
  ( cd "$H" && flock "$W/.fuzzbuild.lock" cargo +nightly fuzz build $flags --target-dir "$tdir" cases ) >"$LOG" 2>&1 || { echo "INCONCLUSIVE: fuzz target does not build (see $LOG)"; tail -n 10 "$LOG"; exit 2; }
  local BIN="$tdir/x86_64-unknown-linux-gnu/release/cases"
  local C="$W/fuzz-$PROP-$label"; rm -rf "$C"; mkdir -p "$C/seed"
  "$REL" "$PROP" --dump "$C/seed" 200 >/dev/null; rm -f "$C/seed"/*.case
  local RUNS=20000
  local pids=()
  for i in $(seq 1 12); do
    mkdir -p "$C/c$i" "$C/a$i"; cp "$C/seed"/*.bin "$C/c$i"/ 2>/dev/null
    ( VERIF_PROP="$PROP" VERIF_ENGINE="$ENGINE" ASAN_OPTIONS=detect_leaks=0 timeout 3000 "$BIN" "$C/c$i" -runs=$RUNS -max_len=392 -len_control=0 -seed=$((SEED * 100 + i)) -artifact_prefix="$C/a$i/" -print_final_stats=1 >"$C/log$i" 2>&1; echo $? >"$C/rc$i" ) &
    pids+=($!)
  done
  wait "${pids[@]}"
  if grep -h "^VIOLATION property=" "$C"/log* >/dev/null 2>&1; then grep -h -E "^(violated:|VIOLATION)" "$C"/log* | head -n 2; exit 1; fi
  local total=0
  for i in $(seq 1 12); do
    rc=$(cat "$C/rc$i" 2>/dev/null || echo 0)
    n=$(grep -h "stat::number_of_executed_units" "$C/log$i" | tail -n 1 | awk '{print $2}'); total=$((total + ${n:-0}))
    if [ "$rc" != "0" ] && [ "$rc" != "124" ]; then
      art=$(ls "$C/a$i"/crash-* 2>/dev/null | head -n 1)
      if [ -n "$art" ]; then
        dst="$VERIF_DIR/replays/$PROP-asan-$label-$(basename "$art").case"
        "$REL" "$PROP" --decode "$ENGINE" "$art" "$dst"
        if memprop; then
          echo "violated: AddressSanitizer / abnormal termination while executing this case ($label build): $(grep -m1 -E 'ERROR: AddressSanitizer|SUMMARY' "$C/log$i")"
          echo "VIOLATION property=$PROP replay=$dst"; exit 1
        fi
        echo "INCONCLUSIVE: the $label fuzz process died on $dst before $PROP could be decided"; exit 2
      fi
    fi
  done
  echo "fuzz($label): $total executions under AddressSanitizer, no violation"
  echo "{\"platform\":\"libFuzzer+ASan $label\",\"executions\":$total}" >> "$W/extra-$PROP.jsonl"
}

for ENGINE in $ENGINES; do
  if [ $FUZZ -eq 1 ]; then fuzz_campaign "" "$H/fuzz/target-a" "asan-a-$ENGINE"; fi
  if [ $FUZZO -eq 1 ]; then fuzz_campaign "-O" "$H/fuzz/target-O" "asan-O-$ENGINE"; fi
done
# attach what the extra platforms executed to the evidence file written by the runner
python3 - "$VERIF_DIR/evidence/$PROP.json" "$W/extra-$PROP.jsonl" <<'PY'
import json, sys, os
ev, extra = sys.argv[1], sys.argv[2]
if os.path.exists(ev) and os.path.exists(extra):
    d = json.load(open(ev))
    d.setdefault('coverage', {})['thorough_platforms'] = [json.loads(l) for l in open(extra) if l.strip()]
    json.dump(d, open(ev, 'w'), indent=1)
PY
exit 0
