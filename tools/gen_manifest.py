#!/usr/bin/env python3
"""Generate /verif/MANIFEST.json (kept in a script so that texts stay consistent)."""
import json
props=[json.loads(l) for l in open('/verif/properties.jsonl')]
T={
"C01":("model-based stateful PBT (proptest histories + bounded-exhaustive enumeration) vs reference dictionary","maphist","4/C01"),
"C02":("stateful PBT with per-object ownership ledger (exactly-one-place / exactly-one-drop oracle)","maphist+sethist","4/C02"),
"C03":("stateful PBT + entry-point sweep on every reached full state, canary cage, dev and release profiles","maphist+sethist","4/C03"),
"C04":("fault enumeration: every user-callback position of every generated history panics once (fuse), ledger + well-formedness + continued model agreement","maphist+sethist (fault mode)","4/C04"),
"C05":("stateful PBT with standing invariants after every op (no model)","maphist+sethist","4/C05"),
"C06":("stateful PBT under a counting global allocator + address-range oracle; no_std build probe","maphist+sethist+setalg","4/C06"),
"C07":("model-based stateful PBT vs reference set","sethist","4/C07"),
"C08":("PBT over pairs of history-built sets + exhaustive small-scope enumeration; per-prefix size_hint/fold/identity oracle","setalg","4/C08"),
"C09":("stateful PBT: per-step exact-length, clone, order-stability and write-visibility oracle for borrowing iterators","maphist+sethist","4/C09"),
"C10":("stateful PBT: consuming iterators/drain stopped at every cut, multiset vs model, reuse after drain","maphist+sethist","4/C10"),
"C11":("model-based stateful PBT of entry chains (closure counting, address and whole-map oracle)","maphist","4/C11"),
"C12":("stateful PBT over equal-but-distinguishable keys; stored-object identity model","maphist+sethist","4/C12"),
"C13":("stateful PBT + exhaustive request-tuple sweeps; differential vs get_mut, alias/address oracle","maphist","4/C13"),
"C14":("metamorphic PBT over pairs (derived/edited right operand) + exhaustive small scope vs extensional equality","mapeq+setalg","4/C14"),
"C15":("stateful PBT with clone-call ledger and two-model independence oracle","maphist+sethist","4/C15"),
"C16":("differential PBT: bulk construction vs one-by-one insert vs model, counting source iterator","maphist+sethist","4/C16"),
"C17":("adversarial-Eq stateful PBT (scripted lying ==/Borrow), memory-safety oracle only (ledger, canaries, aliasing)","maphist+sethist+setalg (liar mode)","4/C17"),
"C18":("differential lockstep PBT: unchecked paths vs safe paths within the documented contract","maphist (lockstep)","4/C18"),
"C19":("PBT: renderings vs independently observed sequences (std debug builders + hand renderer), iterator Debug at every cut","maphist+sethist+setalg","4/C19"),
"C20":("round-trip PBT: recording Serializer + serde value deserializers + bincode","serdechk","4/C20"),
}
checks=[]
for p in props:
    i=p['id']; t,eng,ref=T[i]
    cat="fault_enumeration" if i=="C04" else "exploration"
    text={"fault_enumeration":"Every user-callback position of every generated history is made to panic exactly once and the survivor is inspected, used and dropped; complete over callback positions for the generated histories (stride-sampled above 600 positions, counted in the evidence), sampled over histories.",
          "exploration":"Generated-input search (seeded proptest + corpus replay, bounded-exhaustive enumeration where stated in the evidence) against an explicit oracle after every step; finds violations, does not prove absence."}[cat]
    checks.append({"property_id":i,"quick_cmd":f"./check {i} quick","thorough_cmd":f"./check {i} thorough","evidence_file":f"evidence/{i}.json","replay_cmd_template":f"./check {i} --replay {{path}}","engine":eng,
      "level_claimed":{"category":cat,"text":text,"design_ref":f"DESIGN.md section {ref}"},
      "level_note":"Trusted: the harness's reference model, ledger-instrumented payload types and byte decoders (validated against deliberately broken trees, see DESIGN.md section 7 and /verif/mutants, /verif/seeded); capacities limited to the compiled list; micromap is built unoptimised as a dependency of the harness with its debug assertions off (release semantics) and, where stated, on (dev).",
      "technique":t})
m={"version":1,"setup_cmd":"./setup.sh",
"hooks":{"guard":"micromap_verif","enable":"no source hooks are needed (all observation points are public API, payload trait impls, the global allocator and addresses); the cfg name is reserved","baseline_off_cmd":"cd /repo && cargo test --workspace --no-fail-fast --offline","source_commits":[],"add_only":True},
"engines":[
 {"name":"maphist","path":"harness/maphist","serves_properties":["C01","C02","C03","C04","C05","C06","C09","C10","C11","C12","C13","C15","C16","C17","C18","C19"],"kind_free_text":"Map history interpreter vs reference dictionary, ledger, canaries, allocator, fuse, liar"},
 {"name":"sethist","path":"harness/sethist","serves_properties":["C02","C03","C04","C05","C06","C07","C09","C10","C12","C15","C16","C17","C19"],"kind_free_text":"Set history interpreter vs reference set"},
 {"name":"setalg","path":"harness/pairs/src/setalg.rs","serves_properties":["C06","C08","C14","C17","C19"],"kind_free_text":"pairs of sets, algebra iterators stepped at every prefix"},
 {"name":"mapeq","path":"harness/pairs/src/mapeq.rs","serves_properties":["C14"],"kind_free_text":"pairs of maps, extensional equality"},
 {"name":"serdechk","path":"harness-serde","serves_properties":["C20"],"kind_free_text":"serde round trip with feature serde"},
 {"name":"runner","path":"harness/runner","serves_properties":[p['id'] for p in props if p['id']!='C20'],"kind_free_text":"drivers: corpus replay, proptest, enumeration, fault enumeration; evidence writer"}],
"checks":checks,
"notes":"Three genuine C04 defects were found and repaired in /repo (fix: commits 98ed197, a5f4fc2, 4ddfd64); see known_findings.jsonl. Exit codes: 0 held, 1 VIOLATION, 2 INCONCLUSIVE (build failure, watchdog, crash that does not reproduce).",
"not_applicable":[]}
json.dump(m,open('/verif/MANIFEST.json','w'),indent=1)
