#!/usr/bin/env python3
"""Generate /verif/MANIFEST.json (kept in a script so that texts stay consistent)."""
import json
props=[json.loads(l) for l in open('/verif/properties.jsonl')]
T={
"C01":("model-based stateful PBT (seeded proptest histories + bounded-exhaustive enumeration of short histories) against a reference dictionary, in dev and release; plus the wide (>255 entries) and slices (unsized keys cut from one buffer) engines","maphist+wide+slices","4/C01, 10"),
"C02":("stateful PBT with a per-object ownership ledger (exactly-one-place / exactly-one-drop oracle), consuming iterators and drains cut, dropped, forgotten or driven through nth/last/fold/count/skip","maphist+sethist","4/C02, 10"),
"C03":("stateful PBT + sweep of every insertion entry point on every reached full state; canary cage; ledger for the rejected pair; identical verdict required in dev and release","maphist+sethist","4/C03, 10"),
"C04":("fault enumeration: every user-callback position (==, Clone, Drop, Default, predicates, closures, source next) of every generated and every enumerated short history panics once; ledger + well-formedness + continued model agreement of the survivors","maphist+sethist (fault mode)","4/C04, 10"),
"C05":("stateful PBT with standing invariants after every op (no model), incl. ops ended by library panics; plus generated serde input streams with repeated keys","maphist+sethist+serdechk","4/C05, 10"),
"C06":("stateful PBT under a counting global allocator (every non-panicking call, formatting under flag variants, 300-entry maps with 200-key get_disjoint_mut) + address-range and alignment oracle for every reference handed out; std feature off and on; fixed no_std link probe (dev and release profile) for the build clause","maphist+sethist+setalg+wide+slices","4/C06, 10"),
"C07":("model-based stateful PBT + bounded-exhaustive enumeration against a reference set; plus sets of unsized slices","sethist+wide+slices","4/C07, 10"),
"C08":("PBT over pairs of history-built sets + exhaustive small-scope enumeration of arrangements; per-prefix size_hint / fold / nth / last / count / skip / identity oracle; sets of unsized slices sharing start addresses","setalg+slices","4/C08, 10"),
"C09":("stateful PBT: per-step exact-length, clone-continuation, order-stability, write-visibility and iterator-adaptor (nth/last/fold/count/skip) oracle for borrowing iterators; type-level probe that every iterator is Clone / ExactSizeIterator for arbitrary K, V","maphist+sethist+wide+apiprobe","4/C09, 10"),
"C10":("stateful PBT: consuming iterators and drains cut at every point, then dropped / run out / forgotten / driven through nth, last, fold, count, skip; multiset vs model; reuse after drain; partially consumed iterators relocated in memory between steps; type-level probe","maphist+sethist+wide+apiprobe","4/C10, 10"),
"C11":("model-based stateful PBT of entry chains (closure counting, key and value address oracle, whole-map comparison) + bounded-exhaustive enumeration","maphist","4/C11, 10"),
"C12":("stateful PBT over equal-but-distinguishable keys (ledger-tracked and tagged plain data); stored-object identity model; slices with equal contents at different addresses","maphist+sethist+slices","4/C12, 10"),
"C13":("stateful PBT + exhaustive request-tuple sweeps (J<=4) + long request arrays (32/33/64/65 keys); differential vs get_mut, alias/address oracle, alternate spellings of equal queries, unsized keys that start at one address, 200 keys on a 300-entry map","maphist+wide+slices","4/C13, 10"),
"C14":("metamorphic PBT over pairs (derived / edited right operand), == over map histories incl. large fill levels, exhaustive small scope; vs extensional equality; type-level probe (any two capacities, PartialEq only)","mapeq+setalg+maphist+wide+slices+apiprobe","4/C14, 10"),
"C15":("stateful PBT with clone-call ledger / counter (tracked and no-drop-glue payloads), clone and clone_from, two-model independence oracle; type-level probe (Clone only)","maphist+sethist+wide+apiprobe","4/C15, 10"),
"C16":("differential PBT: bulk construction vs one-by-one insertion vs model; counting, size-hinting, optionally non-fused source iterators","maphist+sethist","4/C16, 10"),
"C17":("adversarial-Eq stateful PBT (scripted lying, non-transitive, time-varying ==/Borrow), memory-safety oracle only (ledger, canaries, aliasing, liveness of handed-out references)","maphist+sethist+setalg (liar mode)","4/C17, 10"),
"C18":("differential lockstep PBT: unchecked paths vs safe paths within the documented contract, plus model, identity and ledger; a quarter of the tracked cases drive insert_unchecked on non-full maps under a misbehaving == (memory-safety oracle only)","maphist (lockstep, unchecked-liar)","4/C18, 10"),
"C19":("PBT: renderings vs independently observed sequences (std debug builders over fresh payloads incl. formatter flags, hand renderer), iterator Debug at every cut; Display under the alternate flag; no element destroyed or created by formatting (ledger); type-level probe","maphist+sethist+setalg+slices+apiprobe","4/C19, 10"),
"C20":("round-trip PBT: recording Serializer; serde value deserializers, own token-stream format with exact / absent size hints, deserialize_in_place, bincode; dev and release; type-level probe (borrowed contents: Deserialize<'de> for &str / &[u8])","serdechk+apiprobe","4/C20, 10"),
}
checks=[]
for p in props:
    i=p['id']; t,eng,ref=T[i]
    cat="fault_enumeration" if i=="C04" else "exploration"
    text={"fault_enumeration":"Every user-callback position of every generated history is made to panic exactly once and the survivor is inspected, used and dropped; complete over callback positions for the generated histories (stride-sampled above 600 positions, counted in the evidence), sampled over histories.",
          "exploration":"Generated-input search (seeded proptest + corpus replay, bounded-exhaustive enumeration where stated in the evidence) against an explicit oracle after every step; finds violations, does not prove absence."}[cat]
    checks.append({"property_id":i,"quick_cmd":f"./check {i} quick","thorough_cmd":f"./check {i} thorough","evidence_file":f"evidence/{i}.json","replay_cmd_template":f"./check {i} --replay {{path}}","engine":eng,
      "level_claimed":{"category":cat,"text":text,"design_ref":f"DESIGN.md section {ref}"},
      "level_note":"Trusted: the harness's reference model, ledger-instrumented payload types, byte decoders and iterator probes (validated against deliberately broken trees: /verif/mutants and the 160 independently seeded changes in /verif/seeded, see DESIGN.md section 10). Bounds: capacities {0,1,2,3,4,6,9,17,32,33,64,70} (pairs {0,1,2,3,5}), histories <= 40 ops (96 thorough), request arrays <= 5 or 32/33/64/65 keys; Map<u16,u32,300> with 200-key requests; long histories of 400 ops on capacities <= 5. micromap's generic code is compiled unoptimised inside the harness crates, with debug assertions and overflow checks on (dev run) and off (release run); optimised + AddressSanitizer and Miri only in the thorough tier.",
      "technique":t})
m={"version":1,"setup_cmd":"./setup.sh",
"hooks":{"guard":"micromap_verif","enable":"no source hooks are needed (all observation points are public API, payload trait impls, the global allocator and addresses); the cfg name is reserved","baseline_off_cmd":"cd /repo && cargo test --workspace --no-fail-fast --offline","source_commits":[],"add_only":True},
"engines":[
 {"name":"maphist","path":"harness/maphist","serves_properties":["C01","C02","C03","C04","C05","C06","C09","C10","C11","C12","C13","C14","C15","C16","C17","C18","C19"],"kind_free_text":"Map history interpreter vs reference dictionary, ledger, canaries, allocator, fuse, liar"},
 {"name":"sethist","path":"harness/sethist","serves_properties":["C02","C03","C04","C05","C06","C07","C09","C10","C12","C15","C16","C17","C19"],"kind_free_text":"Set history interpreter vs reference set"},
 {"name":"setalg","path":"harness/pairs/src/setalg.rs","serves_properties":["C06","C08","C14","C17","C19"],"kind_free_text":"pairs of sets, algebra iterators stepped and probed (nth/last/fold/count/skip) at every prefix"},
 {"name":"wide","path":"harness/maphist/src/wide.rs","serves_properties":["C01","C05","C06","C07","C09","C10","C13","C14","C15"],"kind_free_text":"Map<u16,u32,300> / Set<u16,300> filled past 255 entries, model-based"},
 {"name":"slices","path":"harness/maphist/src/slices.rs","serves_properties":["C01","C05","C06","C07","C08","C12","C13","C14","C19"],"kind_free_text":"maps and sets keyed by &str / &[u8] sub-slices of one buffer (equal contents at different addresses, different keys at one address), model-based"},
 {"name":"apiprobe","path":"apiprobe","serves_properties":["C09","C10","C14","C15","C19","C20"],"kind_free_text":"type-level probe (cargo check only): the generic instantiations the statements quantify over exist"},
 {"name":"mapeq","path":"harness/pairs/src/mapeq.rs","serves_properties":["C14"],"kind_free_text":"pairs of maps, extensional equality"},
 {"name":"serdechk","path":"harness-serde","serves_properties":["C20","C05"],"kind_free_text":"micromap with feature serde: round trips (C20) and standing invariants over deserialized streams with repeated keys (C05)"},
 {"name":"runner","path":"harness/runner","serves_properties":[p['id'] for p in props if p['id']!='C20'],"kind_free_text":"drivers: corpus replay, proptest, enumeration, fault enumeration; evidence writer"}],
"checks":checks,
"notes":"Three genuine C04 defects were found and repaired in /repo (fix: commits 98ed197, a5f4fc2, 4ddfd64); see known_findings.jsonl. Exit codes: 0 held, 1 VIOLATION, 2 INCONCLUSIVE (build failure, watchdog, crash that does not reproduce).",
"not_applicable":[]}
json.dump(m,open('/verif/MANIFEST.json','w'),indent=1)
