#!/usr/bin/env python3
"""Write /verif/neutral/RESULTS.md from the latest result per refactoring in neutral/results.jsonl."""
import json, glob, os
res = {}
for l in open('/verif/neutral/results.jsonl'):
    try: r = json.loads(l)
    except Exception: continue
    if r.get('status') == 'ran' and len(r.get('secs', {})) >= 20: res[r['id']] = r
rows = []
for d in sorted(glob.glob('/verif/neutral/*/meta.json')):
    nid = os.path.basename(os.path.dirname(d)); m = json.load(open(d))
    p = open(os.path.join(os.path.dirname(d), 'patch.diff')).read()
    files = p.count('\ndiff ') + (1 if p.startswith('diff ') else 0)
    r = res.get(nid)
    if not r:
        rows.append((nid, m['property'], f'{files} / {len(p.splitlines())}', '-', 'not evaluated yet', '-')); continue
    suite = r.get('suite_with_patch') or 'pass'
    rows.append((nid, m['property'], f'{files} / {len(p.splitlines())}', suite,
                 ', '.join(r['fired']) or 'none', ', '.join(r['inconclusive']) or 'none'))
with open('/verif/neutral/RESULTS.md', 'w') as f:
    f.write('# Behaviour-preserving refactorings and the checks\n\n')
    f.write('Each refactoring was written by an independent sub-agent that saw only the text of one property and was asked for a '
            'substantial rewrite that keeps the property and all documented behaviour true while changing implementation details an '
            'over-strict checker might depend on (slot / iteration order, algorithms, number and order of `==` calls, drop order, panic '
            'messages, size_hint tightness, memory layout, extra trait overrides). `tools/seeded.py --neutral` confirmed that the pinned '
            'suite passes with the patch in debug and release and that the agent\'s own demonstration passes, and ran **all twenty quick '
            'checks** (three build configurations each, case counts scaled to 0.34) on the patched tree.\n\n')
    f.write('| id | written against | files / lines of diff | pinned suite | checks that fired | inconclusive |\n|---|---|---|---|---|---|\n')
    for r in rows: f.write('| %s | %s | %s | %s | %s | %s |\n' % r)
    ev = [r for r in rows if r[4] != 'not evaluated yet']
    silent = sum(1 for r in ev if r[4] == 'none' and r[5] == 'none')
    f.write(f'\n{len(ev)} refactorings evaluated: {silent} left every check silent.\n')
print(open('/verif/neutral/RESULTS.md').read()[-200:])
