#!/usr/bin/env python3
"""Run the checks against the seeded breakages kept under /verif/seeded/<id>/.

  tools/seeded.py [-j N] [--props target|all|C01,C02] [--tier quick|thorough] [--no-confirm] <ids...|all>

Each seeded change (patch.diff + demonstration + meta.json) was written by an independent
sub-agent that saw only the text of one property.  For every selected id this tool, on a scratch
copy of /repo and /verif under /tmp/mmseed/slot<k> (never /repo itself):
  1. confirms the demonstration passes on the unchanged tree,
  2. applies patch.diff, confirms the pinned suite still passes,
  3. confirms the demonstration now fails,
  4. runs the selected checks and records which fire.
Results are appended to /verif/seeded/results.jsonl and printed as a table."""
import sys, os, subprocess, json, time, threading, queue, glob
ROOT = f'/tmp/mmseed-{os.getpid()}'  # one scratch root per invocation: concurrent runs must not share slots
SEEDED = '/verif/seeded'
SCALE = None  # --scale F: run the checks with VERIF_SCALE=F (fraction of the quick case counts)
NEUTRAL = False  # --neutral: behaviour-preserving refactorings under /verif/neutral; every check must stay silent
ENV = dict(os.environ, CARGO_NET_OFFLINE='true', RUST_BACKTRACE='0')

def sh(cmd, cwd=None, env=None, timeout=7200):
    p = subprocess.run(cmd, shell=True, cwd=cwd, env=env or ENV, stdout=subprocess.PIPE, stderr=subprocess.STDOUT, text=True, timeout=timeout)
    return p.returncode, p.stdout

def prep_slot(k):
    d = f'{ROOT}/slot{k}'
    os.makedirs(d, exist_ok=True)
    sh(f"rsync -a --delete --exclude 'target*' --exclude .git --exclude work --exclude replays --exclude evidence --exclude seeded --exclude 'mutants/results*' /verif/ {d}/verif/")
    sh(f"grep -rl '\"/repo\"' {d}/verif/harness {d}/verif/harness-serde {d}/verif/apiprobe --include=Cargo.toml | xargs sed -i 's#\"/repo\"#\"{d}/repo\"#'")
    return d

def fresh_repo(d):
    sh(f'rsync -rlpgoD --checksum --delete --exclude target --exclude .git /repo/ {d}/repo/')

def run_one(sid, d, props, tier, confirm):
    sd = f'{SEEDED}/{sid}'
    meta = json.load(open(f'{sd}/meta.json'))
    res = dict(id=sid, prop=meta['property'], t=time.strftime('%H:%M:%S'), tier=tier)
    env = dict(ENV, CARGO_TARGET_DIR=f'{d}/repo-target')
    demo_cmd = meta.get('demo_cmd', 'cargo test --offline --test neutral_demo' if NEUTRAL else 'cargo test --offline --test seed_demo')
    suite_cmd = meta.get('suite_cmd', 'cargo test --offline')
    demos = meta.get('demo_files', {'neutral_demo.rs': 'tests/neutral_demo.rs'} if NEUTRAL else {'seed_demo.rs': 'tests/seed_demo.rs'})
    def put_demo():
        for src, dst in demos.items():
            os.makedirs(os.path.dirname(f'{d}/repo/{dst}'), exist_ok=True)
            sh(f'cp {sd}/{src} {d}/repo/{dst}')
    fresh_repo(d)
    if confirm:
        put_demo()
        rc, out = sh(demo_cmd, cwd=f'{d}/repo', env=env)
        res['demo_unchanged'] = 'pass' if rc == 0 else 'FAIL'
        if rc != 0:
            res['detail'] = out[-800:]
        fresh_repo(d)
    rc, out = sh(f'patch -p1 --no-backup-if-mismatch < {sd}/patch.diff', cwd=f'{d}/repo')
    if rc != 0:
        res['status'] = 'patch-does-not-apply'; res['detail'] = out[-500:]; return res
    if confirm:
        rc, out = sh(suite_cmd + ' 2>&1 | tail -n 40', cwd=f'{d}/repo', env=env)
        ok = 'test result: FAILED' not in out and 'error' not in out.split('test result')[0][-2000:] and 'test result: ok' in out
        res['suite_with_patch'] = 'pass' if ok else 'FAIL'
        if not ok:
            res['status'] = 'suite-fails'; res['detail'] = out[-800:]; return res
        put_demo()
        rc, out = sh(demo_cmd, cwd=f'{d}/repo', env=env)
        res['demo_with_patch'] = ('pass' if rc == 0 else 'FAILS') if NEUTRAL else ('fail' if rc != 0 else 'PASSES')
        if NEUTRAL and rc != 0:
            res['detail'] = out[-800:]
        if NEUTRAL:
            rc2, out2 = sh(suite_cmd + ' --release 2>&1 | tail -n 40', cwd=f'{d}/repo', env=env)
            res['suite_release'] = 'pass' if ('test result: FAILED' not in out2 and 'test result: ok' in out2) else 'FAIL'
        for dst in demos.values():
            try: os.remove(f'{d}/repo/{dst}')
            except OSError: pass
    env2 = dict(ENV)
    env2.pop('VERIF_DIR', None)
    if SCALE: env2['VERIF_SCALE'] = SCALE
    fired, incon, details, secs = [], [], {}, {}
    for p in props:
        t0 = time.time()
        rc, out = sh(f'{d}/verif/check {p} {tier}', env=env2, timeout=14400)
        secs[p] = round(time.time() - t0, 1)
        if rc == 1 and 'VIOLATION' in out:
            fired.append(p)
            v = [l for l in out.splitlines() if l.startswith('violated:')]
            details[p] = v[0][:400] if v else ''
        elif rc != 0:
            incon.append(p); details[p] = f'rc={rc} ' + out[-300:]
    res.update(status='ran', fired=fired, inconclusive=incon, details=details, secs=secs)
    return res

def main():
    args = sys.argv[1:]
    global SCALE
    j, props_sel, tier, confirm = 4, 'target', 'quick', True
    ids = []
    i = 0
    while i < len(args):
        if args[i] == '-j': j = int(args[i+1]); i += 2
        elif args[i] == '--props': props_sel = args[i+1]; i += 2
        elif args[i] == '--tier': tier = args[i+1]; i += 2
        elif args[i] == '--no-confirm': confirm = False; i += 1
        elif args[i] == '--scale': SCALE = args[i+1]; i += 2
        elif args[i] == '--neutral':
            global SEEDED, NEUTRAL
            SEEDED, NEUTRAL = '/verif/neutral', True; props_sel = 'all'; i += 1
        else: ids.append(args[i]); i += 1
    allp = [f'C{n:02d}' for n in range(1, 21)]
    every = sorted(os.path.basename(os.path.dirname(p)) for p in glob.glob(f'{SEEDED}/*/meta.json'))
    sel = every if 'all' in ids else [s for s in every if s in ids or any(s.startswith(x + '-') for x in ids)]
    q = queue.Queue()
    for s in sel: q.put(s)
    lock = threading.Lock()
    def worker(k):
        d = prep_slot(k)
        while True:
            try: s = q.get_nowait()
            except queue.Empty: return
            tgt = json.load(open(f'{SEEDED}/{s}/meta.json'))['property']
            props = allp if props_sel == 'all' else [tgt] if props_sel == 'target' else props_sel.split(',')
            try: r = run_one(s, d, props, tier, confirm)
            except Exception as e: r = dict(id=s, status='error', detail=str(e))
            with lock:
                with open(f'{SEEDED}/results.jsonl', 'a') as f: f.write(json.dumps(r) + '\n')
                if NEUTRAL and r.get('status') == 'ran':
                    print(f"{s:32s} {'SILENT' if not r['fired'] else 'ALARM'} suite={r.get('suite_with_patch','-')} release={r.get('suite_release','-')} demo={r.get('demo_with_patch','-')} fired={','.join(r['fired'])} incon={','.join(r['inconclusive'])}", flush=True)
                    continue
                ok = ''
                if r.get('status') == 'ran': ok = 'CAUGHT' if tgt in r['fired'] else ('caught-by-other' if r['fired'] else 'MISSED')
                print(f"{s:32s} {r.get('status'):10s} {ok:16s} demo0={r.get('demo_unchanged','-')} suite={r.get('suite_with_patch','-')} demo1={r.get('demo_with_patch','-')} fired={','.join(r.get('fired', []))} incon={','.join(r.get('inconclusive', []))}", flush=True)
    ts = [threading.Thread(target=worker, args=(k,)) for k in range(min(j, max(1, len(sel))))]
    for t in ts: t.start()
    for t in ts: t.join()
    sh(f'rm -rf {ROOT}')

main()
