#!/usr/bin/env python3
"""Write /verif/seeded/CATCHES.md from the latest result per seeded change in seeded/results*.jsonl."""
import json, glob, os, re
res = {}  # id -> {'target': latest run of the target check alone, 'all': latest run of several checks, 'cross': prop -> fired (runs of one other check)}
metas = {os.path.basename(os.path.dirname(d)): json.load(open(d)) for d in glob.glob('/verif/seeded/*/meta.json')}
for f in sorted(glob.glob('/verif/seeded/results*.jsonl'), key=os.path.getmtime):
    for l in open(f):
        try: r = json.loads(l)
        except Exception: continue
        if r.get('status') != 'ran' or r['id'] not in metas: continue
        cur = res.setdefault(r['id'], {'target': None, 'all': None, 'cross': {}})
        ps = list(r.get('secs', {}))
        if len(ps) > 1: cur['all'] = r
        elif ps == [metas[r['id']]['property']]: cur['target'] = r
        elif ps: cur['cross'][ps[0]] = ps[0] in r.get('fired', [])
rows = []
for d in sorted(glob.glob('/verif/seeded/*/meta.json')):
    sid = os.path.basename(os.path.dirname(d)); m = json.load(open(d))
    r = res.get(sid, {'target': None, 'all': None, 'cross': {}})
    t, a = r['target'], r['all']
    tgt = m['property']
    caught_t = bool((t and tgt in t['fired']) or (not t and a and tgt in a['fired']))
    others = sorted((set((a or {}).get('fired', [])) | {p for p, v in r['cross'].items() if v}) - {tgt})
    what = m.get('summary', '')
    if not what:
        notes = os.path.join(os.path.dirname(d), 'notes.md')
        if os.path.exists(notes):
            txt = open(notes).read()
            mm = re.search(r'^#+\s*(.+)$', txt, re.M)
            what = (mm.group(1) if mm else txt.strip().split('\n')[0])[:140]
    rows.append((sid, tgt, what.replace('|', '/'), 'yes' if caught_t else ('by ' + ','.join(others) if others else 'NO'), ','.join(others)))
with open('/verif/seeded/CATCHES.md', 'w') as f:
    f.write('# Seeded breakages and which quick checks catch them\n\n')
    f.write('Each change was written by an independent sub-agent that saw only the text of the target property; it compiles,\npasses the pinned suite, and its own demonstration fails with it and passes without it (re-confirmed by `tools/seeded.py`).\n"caught by target" = the quick check of the property it was written against prints VIOLATION.\n\n')
    f.write('| id | target | change | caught by target check | other checks that also fire |\n|---|---|---|---|---|\n')
    for r in rows: f.write('| %s | %s | %s | %s | %s |\n' % r)
    n = len(rows); y = sum(1 for r in rows if r[3] == 'yes'); o = sum(1 for r in rows if r[3].startswith('by'))
    f.write(f'\n{n} changes: {y} caught by the target property\'s quick check, {o} only by another property\'s check, {n-y-o} not caught.\n')
print(open('/verif/seeded/CATCHES.md').read()[-300:])
