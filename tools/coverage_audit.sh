#!/bin/bash
# One-off audit (not a registered check): which lines of /repo/src do the quick campaigns execute?
# Builds the runner with -C instrument-coverage (nightly), runs every runner-based quick check at
# a tenth of its case count and prints llvm-cov's per-file report for micromap's sources.
set -u
cd "$(dirname "$0")/.."; V="$(pwd)"
T=$(dirname "$(rustup +nightly which rustc)")/../lib/rustlib/x86_64-unknown-linux-gnu/bin
D="${1:-/tmp/mm-cov}"; rm -rf "$D"; mkdir -p "$D/prof"
( cd harness && RUSTFLAGS="-C instrument-coverage" CARGO_NET_OFFLINE=true cargo +nightly build --release -p runner --target-dir "$D/target" ) 2>&1 | tail -n 1
for i in $(seq -w 1 19); do
  LLVM_PROFILE_FILE="$D/prof/c$i-%p.profraw" VERIF_SCALE=0.1 VERIF_EVIDENCE_DIR="$D/prof" VERIF_DIR="$V" "$D/target/release/runner" C$i quick >/dev/null 2>&1
done
"$T/llvm-profdata" merge -sparse "$D"/prof/*.profraw -o "$D/all.profdata"
"$T/llvm-cov" report "$D/target/release/runner" -instr-profile="$D/all.profdata" --sources /repo/src 2>/dev/null
echo "uncovered lines:"
"$T/llvm-cov" show "$D/target/release/runner" -instr-profile="$D/all.profdata" --sources /repo/src 2>/dev/null | grep -E "^/repo|^\s+[0-9]+\|\s+0\|" | grep -B1 -E "^\s+[0-9]+\|\s+0\|"
rm -rf "$D"
