//! Keys that are only `PartialEq`: `f32` keys with NaN among them (`Map<f32, u32, 6>`,
//! `Set<f32, 6>`). `K: PartialEq` is all the containers ask for, so such keys are legal; a NaN
//! equals nothing, not even itself, so it is never found and every insertion of one takes a
//! fresh slot. The reference is the association list an ideal linear dictionary over `==` is:
//! "present" means "some stored key `==` the query".
//!
//! What this reaches and the history engines cannot: look-ups through a reference to the
//! *stored key itself* (`m.get(k)` with `k` borrowed from `m.keys()`), for which an identity
//! shortcut (`ptr::eq(a, b) || a == b`) answers differently from `==` exactly when the key is
//! not reflexive. Runs as a second part of the `slices` engine (same cases, same campaigns).

use micromap::{Entry, Map, Set};
use mmv_base::case::{Case, Prop, PS};
use mmv_base::ctx::{Ctx, S};
use mmv_base::tl;

const NN: usize = 6;
const P01: PS = PS::of(Prop::C01);
const P05: PS = PS::of(Prop::C05);
const P07: PS = PS::of(Prop::C07);
const P11: PS = PS::of(Prop::C11);
const P16: PS = PS::of(Prop::C16);
const P18: PS = PS::of(Prop::C18);

fn kf(x: u8) -> f32 {
    // a third of the keys are NaN
    match x % 6 {
        0 | 3 => f32::NAN,
        r => r as f32,
    }
}

struct E<'c> {
    cx: &'c mut Ctx,
    m: Map<f32, u32, NN>,
    s: Set<f32, NN>,
    /// C18: a twin of `m` that gets the same operations, with `insert_unchecked` wherever its
    /// contract (not full, or some stored key == the new one) is met
    mu: Map<f32, u32, NN>,
    /// association lists (insertion does not fix the slot order, so they are compared as multisets)
    mm: Vec<(f32, u32)>,
    sm: Vec<f32>,
}

fn bits(v: &[(f32, u32)]) -> Vec<(u32, u32)> {
    let mut o: Vec<(u32, u32)> = v.iter().map(|(k, x)| (k.to_bits(), *x)).collect();
    o.sort_unstable();
    o
}

impl E<'_> {
    fn sweep(&mut self) {
        let cx = &mut *self.cx;
        let got = tl::quiet(|| self.m.iter().map(|(k, v)| (*k, *v)).collect::<Vec<_>>()).unwrap_or_default();
        cx.chk(P01, bits(&got) == bits(&self.mm) && self.m.len() == self.mm.len(), "state-vs-model", || format!("Map<f32,u32,{NN}> holds {got:?}, the association list over == holds {:?}", self.mm));
        let gu = tl::quiet(|| self.mu.iter().map(|(k, v)| (*k, *v)).collect::<Vec<_>>()).unwrap_or_default();
        cx.chk(P18, bits(&gu) == bits(&self.mm) && self.mu.len() == self.mm.len(), "unchecked-vs-safe-state", || format!("Map<f32,u32,{NN}> driven through insert_unchecked holds {gu:?}, the association list over == (and the map driven through insert) holds {:?}", self.mm));
        cx.chk(P05, self.m.len() == got.len() && self.m.len() <= NN, "len-vs-iter", || format!("len()={} but iteration yields {} entries", self.m.len(), got.len()));
        let gs = tl::quiet(|| self.s.iter().copied().collect::<Vec<f32>>()).unwrap_or_default();
        let mut a: Vec<u32> = gs.iter().map(|k| k.to_bits()).collect();
        let mut b: Vec<u32> = self.sm.iter().map(|k| k.to_bits()).collect();
        a.sort_unstable();
        b.sort_unstable();
        cx.chk(P07, a == b && self.s.len() == self.sm.len(), "state-vs-model", || format!("Set<f32,{NN}> holds {gs:?}, the list over == holds {:?}", self.sm));
        // look-ups through references to the stored keys themselves
        let n = got.len();
        for i in 0..n {
            let r = tl::quiet(|| {
                let (k, v) = self.m.iter().nth(i).unwrap();
                let hit = self.m.get(k).map(|x| x as *const u32 as usize);
                let has = self.m.contains_key(k);
                let kv = self.m.get_key_value(k).map(|(a, _)| a as *const f32 as usize);
                (*k, v as *const u32 as usize, k as *const f32 as usize, hit, has, kv)
            });
            if let Ok((k, va, ka, hit, has, kv)) = r {
                // the first stored key that == this one (none for NaN)
                let want = tl::quiet(|| self.m.iter().find(|(q, _)| **q == k).map(|(q, v)| (q as *const f32 as usize, v as *const u32 as usize))).unwrap_or(None);
                let ok = hit == want.map(|w| w.1) && has == want.is_some() && kv == want.map(|w| w.0);
                cx.chk(P01, ok, "lookup-by-stored-reference", || format!("looking the stored key {k} (slot {i}) up through a reference to itself: get -> {}, contains_key -> {has}, get_key_value -> {}; some stored key == it: {}", hit.is_some(), kv.is_some(), want.is_some()));
                if !k.is_nan() {
                    cx.chk(P05, hit == Some(va) && kv == Some(ka), "yield-vs-get", || format!("get({k}) does not return the value yielded with that key"));
                }
            }
        }
        for i in 0..gs.len() {
            let r = tl::quiet(|| {
                let k = self.s.iter().nth(i).unwrap();
                (*k, self.s.contains(k), self.s.get(k).is_some())
            });
            if let Ok((k, has, got)) = r {
                let want = !k.is_nan();
                cx.chk(P07, has == want && got == want, "lookup-by-stored-reference", || format!("Set<f32>: contains / get of the stored element {k} through a reference to itself give {has} / {got}"));
            }
        }
    }

    /// Bulk operations over elements that are not reflexive (C16: "exactly the container obtained
    /// by inserting the items one at a time in order"; one at a time, every NaN takes a fresh slot).
    fn bulk(&mut self, o: [u8; 4], code: u8) {
        let cx = &mut *self.cx;
        cx.bump(S::nan_bulk_ops);
        let all = [kf(o[1]), kf(o[2]), kf(o[3]), kf(o[1] ^ o[2]), kf(o[1].wrapping_add(o[3])), kf(o[2].wrapping_mul(3)), kf(o[3] ^ 0x55), kf(o[1] ^ 0xAA)];
        // what one-by-one insertion into `start` gives: Ok(list) or Err(list at the overflow)
        let one_by_one = |start: &[f32], items: &[f32]| -> Result<Vec<f32>, Vec<f32>> {
            let mut l = start.to_vec();
            for it in items {
                if l.iter().any(|e| e == it) {
                    continue;
                }
                if l.len() >= NN {
                    return Err(l);
                }
                l.push(*it);
            }
            Ok(l)
        };
        let sbits = |v: &[f32]| {
            let mut o: Vec<u32> = v.iter().map(|k| k.to_bits()).collect();
            o.sort_unstable();
            o
        };
        if code == 8 {
            // Set::extend, by value and by reference (`Extend<&T>` for `T: Copy`)
            cx.cur_op = "extend";
            let n = 1 + (o[3] as usize % 5);
            let items = &all[..n];
            let by_ref = o[2] & 1 == 1;
            let want = one_by_one(&self.sm, items);
            let s = &mut self.s;
            let r = tl::lib(|| if by_ref { s.extend(items.iter()) } else { s.extend(items.iter().copied()) });
            let gs = tl::quiet(|| self.s.iter().copied().collect::<Vec<f32>>()).unwrap_or_default();
            match (&r, &want) {
                (Ok(()), Ok(l)) => {
                    cx.chk(P16.and(Prop::C07), sbits(&gs) == sbits(l), "bulk-vs-one-by-one", || format!("Set<f32,{NN}> {:?} extended{} with {items:?} holds {gs:?}; inserting the items one at a time gives {l:?}", self.sm, if by_ref { " by reference" } else { "" }));
                    self.sm = gs;
                }
                (Err(p), Err(_)) if *p != tl::Pk::Injected => {
                    cx.bump(S::lib_panics);
                    self.sm = gs;
                }
                _ => {
                    cx.chk(P16.and(Prop::C07).and(Prop::C03), false, "bulk-vs-one-by-one", || format!("Set<f32,{NN}> {:?} extended{} with {items:?}: {r:?}; inserting the items one at a time {}", self.sm, if by_ref { " by reference" } else { "" }, if want.is_ok() { "succeeds" } else { "overflows" }));
                    self.sm = gs;
                }
            }
        } else {
            cx.cur_op = "from_iter";
            let n = o[3] as usize % 9;
            let items = &all[..n];
            match o[2] % 3 {
                0 => {
                    let want = one_by_one(&[], items);
                    let r = tl::lib(|| items.iter().copied().collect::<Set<f32, NN>>());
                    match (&r, &want) {
                        (Ok(s), Ok(l)) => {
                            let gs: Vec<f32> = tl::quiet(|| s.iter().copied().collect()).unwrap_or_default();
                            cx.chk(P16, sbits(&gs) == sbits(l) && s.len() == l.len(), "bulk-vs-one-by-one", || format!("Set<f32,{NN}> collected from {items:?} holds {gs:?}; inserting the items one at a time gives {l:?}"));
                        }
                        (Err(p), Err(_)) if *p != tl::Pk::Injected => cx.bump(S::lib_panics),
                        _ => {
                            let t = r.as_ref().map(|s| s.len());
                            cx.chk(P16.and(Prop::C03), false, "bulk-vs-one-by-one", || format!("Set<f32,{NN}> collected from {items:?}: {t:?}; inserting the items one at a time {}", if want.is_ok() { "succeeds" } else { "overflows" }));
                        }
                    }
                }
                1 => {
                    // Map::from_iter: last value wins for keys that == an earlier one
                    let pairs: Vec<(f32, u32)> = items.iter().enumerate().map(|(i, k)| (*k, 0x0C00_0000 | i as u32)).collect();
                    let mut l: Vec<(f32, u32)> = vec![];
                    let mut over = false;
                    for (k, v) in &pairs {
                        if let Some(e) = l.iter_mut().find(|e| e.0 == *k) {
                            e.1 = *v;
                        } else if l.len() >= NN {
                            over = true;
                            break;
                        } else {
                            l.push((*k, *v));
                        }
                    }
                    let r = tl::lib(|| pairs.iter().copied().collect::<Map<f32, u32, NN>>());
                    match &r {
                        Ok(m) if !over => {
                            let g: Vec<(f32, u32)> = tl::quiet(|| m.iter().map(|(k, v)| (*k, *v)).collect()).unwrap_or_default();
                            cx.chk(P16, bits(&g) == bits(&l) && m.len() == l.len(), "bulk-vs-one-by-one", || format!("Map<f32,u32,{NN}> collected from {pairs:?} holds {g:?}; inserting the pairs one at a time gives {l:?}"));
                        }
                        Err(p) if over && *p != tl::Pk::Injected => cx.bump(S::lib_panics),
                        _ => {
                            let t = r.as_ref().map(|m| m.len());
                            cx.chk(P16.and(Prop::C03), false, "bulk-vs-one-by-one", || format!("Map<f32,u32,{NN}> collected from {pairs:?}: {t:?}; inserting the pairs one at a time {}", if over { "overflows" } else { "succeeds" }));
                        }
                    }
                }
                _ => {
                    // From<[_; N]>: exactly N items, so one-by-one insertion cannot overflow
                    let arr: [f32; NN] = core::array::from_fn(|i| all[i]);
                    let l = one_by_one(&[], &arr).unwrap_or_default();
                    let r = tl::lib(|| Set::<f32, NN>::from(arr));
                    match &r {
                        Ok(s) => {
                            let gs: Vec<f32> = tl::quiet(|| s.iter().copied().collect()).unwrap_or_default();
                            cx.chk(P16, sbits(&gs) == sbits(&l) && s.len() == l.len(), "bulk-vs-one-by-one", || format!("Set::<f32,{NN}>::from({arr:?}) holds {gs:?}; inserting the items one at a time gives {l:?}"));
                        }
                        Err(_) => {
                            cx.chk(P16, false, "bulk-vs-one-by-one", || format!("Set::<f32,{NN}>::from({arr:?}) panicked; inserting the items one at a time succeeds"));
                        }
                    }
                    let parr: [(f32, u32); NN] = core::array::from_fn(|i| (all[i], 0x0D00_0000 | i as u32));
                    let mut lm: Vec<(f32, u32)> = vec![];
                    for (k, v) in &parr {
                        if let Some(e) = lm.iter_mut().find(|e| e.0 == *k) {
                            e.1 = *v;
                        } else {
                            lm.push((*k, *v));
                        }
                    }
                    let r = tl::lib(|| Map::<f32, u32, NN>::from(parr));
                    match &r {
                        Ok(m) => {
                            let g: Vec<(f32, u32)> = tl::quiet(|| m.iter().map(|(k, v)| (*k, *v)).collect()).unwrap_or_default();
                            cx.chk(P16, bits(&g) == bits(&lm) && m.len() == lm.len(), "bulk-vs-one-by-one", || format!("Map::<f32,u32,{NN}>::from({parr:?}) holds {g:?}; inserting the pairs one at a time gives {lm:?}"));
                        }
                        Err(_) => {
                            cx.chk(P16, false, "bulk-vs-one-by-one", || format!("Map::<f32,u32,{NN}>::from({parr:?}) panicked; inserting the pairs one at a time succeeds"));
                        }
                    }
                }
            }
        }
    }

    fn op(&mut self, o: [u8; 4]) {
        let k = kf(o[1]);
        let v = 0x0B00_0000 | (self.cx.step as u32) << 8 | o[3] as u32;
        let pos = self.mm.iter().position(|e| e.0 == k);
        let full = self.mm.len() >= NN;
        let cx = &mut *self.cx;
        cx.bump(S::ops);
        let code = o[0] % 10;
        if cx.armed == Prop::C18 {
            // the twin first (the association list still describes the state before the op)
            let held = pos.map(|i| self.mm[i].1);
            match code {
                0 => {
                    cx.cur_op = "insert_unchecked";
                    let within = !full || pos.is_some();
                    if within {
                        cx.bump(S::nan_unchecked_inserts);
                    }
                    let mu = &mut self.mu;
                    // SAFETY: called only when the map is not full or some stored key == k
                    let r = tl::lib(|| if within { unsafe { mu.insert_unchecked(k, v) } } else { mu.insert(k, v) });
                    let want: Result<Option<u32>, ()> = if within { Ok(held) } else { Err(()) };
                    let got = r.clone().map_err(|_| ());
                    cx.chk(P18, got == want, "unchecked-vs-safe-return", || format!("insert_unchecked({k}) on a map of {} of {NN} entries (some stored key == it: {}) gave {r:?}; insert gives {want:?}", self.mm.len(), pos.is_some()));
                }
                1 => {
                    let _ = tl::lib(|| self.mu.insert_key_value(k, v));
                }
                3 => {
                    let _ = tl::lib(|| if o[2] & 1 == 0 { self.mu.remove(&k) } else { self.mu.remove_entry(&k).map(|p| p.1) });
                }
                4 => {
                    let room = !full;
                    let _ = tl::lib(|| {
                        if let Entry::Vacant(e) = self.mu.entry(k) {
                            if room {
                                e.insert(v);
                            }
                        }
                    });
                }
                5 => {
                    let _ = tl::lib(|| self.mu.checked_insert(k, v));
                }
                _ => {}
            }
        }
        match code {
            8 | 9 => self.bulk(o, code),
            _ => {}
        }
        let cx = &mut *self.cx;
        match code {
            8 | 9 => {}
            0 | 1 => {
                cx.cur_op = "insert";
                let r = tl::lib(|| if code == 0 { self.m.insert(k, v) } else { self.m.insert_key_value(k, v).map(|p| p.1) });
                match (r, pos, full) {
                    (Ok(got), Some(i), _) => {
                        cx.chk(P01, got == Some(self.mm[i].1), "return", || format!("insert({k}) returned {got:?}, the stored value was {}", self.mm[i].1));
                        self.mm[i].1 = v;
                    }
                    (Ok(got), None, false) => {
                        cx.chk(P01, got.is_none(), "return", || format!("insert of the absent key {k} returned {got:?}"));
                        self.mm.push((k, v));
                    }
                    (Err(p), None, true) if p != tl::Pk::Injected => cx.bump(S::lib_panics),
                    (other, p, f) => {
                        let t = format!("{other:?}");
                        cx.chk(P01, false, "return", || format!("insert({k}) (present at {p:?}, full {f}) gave {t}"));
                    }
                }
            }
            2 => {
                cx.cur_op = "get";
                let r = tl::lib(|| (self.m.get(&k).copied(), self.m.contains_key(&k), self.m.get_key_value(&k).map(|(a, b)| (a.to_bits(), *b)), self.m.get_mut(&k).map(|x| *x)));
                let want = pos.map(|i| self.mm[i].1);
                cx.chk(P01, r == Ok((want, want.is_some(), pos.map(|i| (self.mm[i].0.to_bits(), self.mm[i].1)), want)), "lookup", || format!("get / contains_key / get_key_value / get_mut({k}) gave {r:?}, the list has {want:?}"));
                let idx = tl::lib(|| self.m[&k]);
                cx.chk(P01, idx.is_ok() == want.is_some(), "index", || format!("m[&{k}] {} although the key is {}", if idx.is_ok() { "returned" } else { "panicked" }, if want.is_some() { "present" } else { "absent" }));
            }
            3 => {
                cx.cur_op = "remove";
                let r = tl::lib(|| if o[2] & 1 == 0 { self.m.remove(&k) } else { self.m.remove_entry(&k).map(|p| p.1) });
                let want = pos.map(|i| self.mm[i].1);
                cx.chk(P01, r == Ok(want), "return", || format!("remove({k}) returned {r:?}, the list has {want:?}"));
                if let Some(i) = pos {
                    self.mm.remove(i);
                }
            }
            4 => {
                cx.cur_op = "entry";
                let room = !full;
                let r = tl::lib(|| match self.m.entry(k) {
                    Entry::Occupied(e) => (true, Some(*e.get())),
                    Entry::Vacant(e) => (false, if room { Some(*e.insert(v)) } else { None }),
                });
                match r {
                    Ok((occ, val)) => {
                        cx.chk(P11, occ == pos.is_some(), "entry-kind", || format!("entry({k}) is {} but some stored key == it: {}", if occ { "Occupied" } else { "Vacant" }, pos.is_some()));
                        if occ {
                            cx.chk(P11, val == pos.map(|i| self.mm[i].1), "entry-get", || format!("OccupiedEntry::get for {k} gives {val:?}"));
                        } else if room {
                            cx.chk(P11, val == Some(v), "entry-insert", || format!("VacantEntry::insert for {k} returned a reference to {val:?}"));
                            if pos.is_none() {
                                self.mm.push((k, v));
                            }
                        }
                    }
                    Err(_) => {
                        cx.chk(P11, false, "unexpected-panic", || format!("entry({k}) panicked"));
                    }
                }
            }
            5 => {
                // checked_insert: replaces when some stored key == it, appends when there is room,
                // otherwise gives the pair up without a panic (get_disjoint_mut needs Q: Eq, which
                // f32 is not)
                cx.cur_op = "checked_insert";
                let r = tl::lib(|| self.m.checked_insert(k, v));
                match (r, pos, full) {
                    (Ok(Some(got)), Some(i), _) => {
                        cx.chk(P01, got == Some(self.mm[i].1), "return", || format!("checked_insert({k}) returned {got:?}, the stored value was {}", self.mm[i].1));
                        self.mm[i].1 = v;
                    }
                    (Ok(Some(None)), None, false) => self.mm.push((k, v)),
                    (Ok(None), None, true) => {}
                    (other, p, f) => {
                        let t = format!("{other:?}");
                        cx.chk(P01, false, "return", || format!("checked_insert({k}) (present at {p:?}, full {f}) gave {t}"));
                    }
                }
            }
            6 => {
                cx.cur_op = "insert";
                let spos = self.sm.iter().position(|e| *e == k);
                let sfull = self.sm.len() >= NN;
                let r = tl::lib(|| self.s.insert(k));
                match (r, spos, sfull) {
                    (Ok(b), Some(_), _) => {
                        cx.chk(P07, !b, "return", || format!("Set::insert({k}) returned true although an equal element is stored"));
                    }
                    (Ok(b), None, false) => {
                        cx.chk(P07, b, "return", || format!("Set::insert({k}) returned false although no stored element == it"));
                        self.sm.push(k);
                    }
                    (Err(p), None, true) if p != tl::Pk::Injected => cx.bump(S::lib_panics),
                    (other, p, f) => {
                        let t = format!("{other:?}");
                        cx.chk(P07, false, "return", || format!("Set::insert({k}) (present at {p:?}, full {f}) gave {t}"));
                    }
                }
            }
            _ => {
                cx.cur_op = "remove";
                let spos = self.sm.iter().position(|e| *e == k);
                let r = tl::lib(|| (self.s.contains(&k), if o[2] & 1 == 0 { self.s.remove(&k) } else { self.s.take(&k).is_some() }));
                cx.chk(P07, r == Ok((spos.is_some(), spos.is_some())), "return", || format!("Set contains / remove({k}) gave {r:?}, some stored element == it: {}", spos.is_some()));
                if let Some(i) = spos {
                    self.sm.remove(i);
                }
            }
        }
        cx.bump(S::mutations);
        self.sweep();
    }
}

pub fn run_sub(case: &Case, cx: &mut Ctx) {
    cx.cur_op = "insert";
    let mut e = E { cx, m: Map::new(), s: Set::new(), mu: Map::new(), mm: vec![], sm: vec![] };
    for (i, o) in case.ops.iter().enumerate() {
        e.cx.step = i;
        // the same bytes as the slices part, read in another order
        let o2 = [o[2], o[0], o[3], o[1]];
        if std::panic::catch_unwind(std::panic::AssertUnwindSafe(|| e.op(o2))).is_err() {
            e.cx.discard = true;
            return;
        }
        if e.cx.failed() {
            return;
        }
    }
}
