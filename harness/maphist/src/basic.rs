//! insert family, lookups, removals, retain, clear.

use super::*;
use mmv_base::tl::Cb;

#[derive(Debug, PartialEq, Eq, Clone, Copy)]
pub enum Ret {
    Rejected,
    NoPrev,
    Prev { kid: u32, vid: u32, val: u32 },
}

impl Ret {
    pub fn summary(&self) -> u64 {
        match self {
            Ret::Rejected => 1,
            Ret::NoPrev => 2,
            Ret::Prev { val, .. } => 3 | ((*val as u64) << 8),
        }
    }
}

/// Handle a panic the model did not expect. Returns true if it was the injected one.
pub fn unexpected(cx: &mut Ctx, liar: bool, owners: PS, p: &Pk) -> bool {
    match p {
        Pk::Injected => true,
        _ => {
            if !liar {
                let n = p.name();
                cx.chk(owners, false, "unexpected-panic", || format!("library call panicked ({n}) where the model expects a normal return"));
            }
            false
        }
    }
}

impl<'c, KD: Kind, const N: usize> MapEng<'c, KD, N> {
    pub fn note_fault(&mut self, f: bool, mutating: bool) {
        if f {
            self.faulted = true;
            self.ever_faulted = true;
            if mutating {
                self.cx.bump(S::fault_in_mutating_op);
            }
        }
    }

    pub fn op_insert(&mut self, w: usize, variant: usize, a: u8, b: u8) {
        let k = self.key_of(a);
        let v = self.newval(b);
        self.op_insert_k(w, variant, k, v)
    }

    pub fn op_insert_k(&mut self, w: usize, variant: usize, k: u8, v: u32) {
        self.cur_target = w;
        let liar = self.liar;
        let mut fault = false;
        let mut rejected = false;
        let mut variant = variant;
        {
            let Some(slot) = self.slots[w].as_mut() else { return };
            let cx = &mut *self.cx;
            let present = slot.model.get(&k).copied();
            let full = slot.model.len() >= N;
            if variant == OP_INSERT_UNCHECKED {
                // only inside the documented contract: not full, or key already present
                let real_len = slot.c.m.len();
                let qo = KD::qo(k);
                let really_present = tl::quiet(|| slot.c.m.contains_key(KD::q(&qo))).unwrap_or(false);
                let within_contract = if liar { real_len < N } else { (real_len < N && !full) || (really_present && present.is_some()) };
                if !within_contract {
                    variant = OP_INSERT;
                } else {
                    cx.bump(S::unchecked_inserts);
                    self.op_unchecked = true;
                    if present.is_some() && slot.order.last() != Some(&k) {
                        cx.bump(S::unchecked_replace_nonlast);
                    }
                    if present.is_none() && slot.model.len() + 1 == N {
                        cx.bump(S::unchecked_fill_last);
                    }
                }
            }
            // (under a lying == the model's answers are not binding: only the standing memory-safety checks count)
            let owner = if liar { PS::NONE } else if variant == OP_INSERT_UNCHECKED { PS::of(Prop::C18) } else { P01 };
            let key = KD::key(k);
            let kid = KD::kid(&key);
            let val = KD::val(v);
            let vid = KD::vid(&val);
            let m = &mut slot.c.m;
            let r: Result<Ret, Pk> = match variant {
                OP_INSERT => Self::lib(cx, move || m.insert(key, val)).map(|o| match o {
                    None => Ret::NoPrev,
                    Some(old) => Ret::Prev { kid: NOID, vid: KD::vid(&old), val: KD::vval(&old) },
                }),
                OP_INSERT_UNCHECKED => Self::lib(cx, move || unsafe { m.insert_unchecked(key, val) }).map(|o| match o {
                    None => Ret::NoPrev,
                    Some(old) => Ret::Prev { kid: NOID, vid: KD::vid(&old), val: KD::vval(&old) },
                }),
                OP_CHECKED => Self::lib(cx, move || m.checked_insert(key, val)).map(|o| match o {
                    None => Ret::Rejected,
                    Some(None) => Ret::NoPrev,
                    Some(Some(old)) => Ret::Prev { kid: NOID, vid: KD::vid(&old), val: KD::vval(&old) },
                }),
                _ => Self::lib(cx, move || m.insert_key_value(key, val)).map(|o| match o {
                    None => Ret::NoPrev,
                    Some((ok, ov)) => Ret::Prev { kid: KD::kid(&ok), vid: KD::vid(&ov), val: KD::vval(&ov) },
                }),
            };
            cx.log(|| format!("{}[{w}]({k}, {v}) -> {:?}   (model: present={} full={})", OP_NAMES[variant], r, present.is_some(), full));
            if let Some(e) = present {
                cx.bump(S::inserts_replace);
                cx.bump(S::dup_key_supplied);
                self.dup_paths |= 1 << variant;
                if full {
                    self.op_overflow = true;
                    cx.bump(S::replace_on_full);
                    cx.bump(S::dup_key_on_full);
                }
                match &r {
                    Ok(Ret::Prev { kid: rk, vid: rv, val: rval }) => {
                        cx.chk(owner, *rval == e.val && (!KD::IDENT || *rv == e.vid), "return", || format!("returned previous value {rval} (#{rv}), model had {} (#{})", e.val, e.vid));
                        if variant == OP_INSERT_KV && KD::IDENT {
                            cx.chk(P12, *rk == e.kid, "returned-key-identity", || format!("insert_key_value handed back key object #{rk}, the stored one was #{}", e.kid));
                        }
                        let ne = if variant == OP_INSERT_KV { Ent { kid, vid, val: v } } else { Ent { kid: e.kid, vid, val: v } };
                        slot.model.insert(k, ne);
                    }
                    Ok(other) => {
                        let o = *other;
                        cx.chk(owner.and(Prop::C03), false, "return", || format!("key {k} is present (full={full}) but the call returned {o:?}"));
                    }
                    Err(p) => {
                        fault = unexpected(cx, liar, owner.and(Prop::C03), p);
                    }
                }
            } else if !full {
                cx.bump(S::inserts_new);
                match &r {
                    Ok(Ret::NoPrev) => {
                        slot.model.insert(k, Ent { kid, vid, val: v });
                        if slot.swapped {
                            cx.bump(S::insert_after_swap);
                        }
                        if slot.model.len() == N {
                            cx.bump(S::reached_full);
                            if slot.drained_at_step.is_some() {
                                cx.bump(S::drain_refilled_full);
                                slot.drained_at_step = None;
                            }
                        }
                    }
                    Ok(other) => {
                        let o = *other;
                        cx.chk(owner, false, "return", || format!("key {k} is absent and there is room, but the call returned {o:?}"));
                    }
                    Err(p) => {
                        fault = unexpected(cx, liar, owner, p);
                    }
                }
            } else {
                // new key into a full container
                cx.bump(S::rejected_inserts);
                rejected = true;
                self.op_overflow = true;
                match (&r, variant) {
                    (Ok(Ret::Rejected), OP_CHECKED) => {
                        cx.bump(S::checked_none);
                    }
                    (Err(p), OP_INSERT | OP_INSERT_KV) if *p != Pk::Injected => {
                        // any panic raised by the library is a rejection (the message is not part of the statement)
                        cx.bump(S::lib_panics);
                        self.lib_panicked = true;
                    }
                    (Err(Pk::Injected), _) => fault = true,
                    (other, _) => {
                        if !liar {
                            let o = format!("{other:?}");
                            cx.chk(owner.and(Prop::C03), false, "overflow-not-rejected", || {
                                format!("new key {k} into a full container ({N} entries): expected {}, got {o}", if variant == OP_CHECKED { "None" } else { "a panic" })
                            });
                        }
                    }
                }
            }
            cx.bump(S::mutations);
            if self.lib_panicked && !rejected {
                cx.bump(S::mutation_after_lib_panic);
            }
            self.last_ret[w] = r.as_ref().map(|x| x.summary()).unwrap_or(0xFF);
            self.groups |= 1;
        }
        self.note_fault(fault, true);
        self.note_clone_mutation(w);
        let owner = if variant == OP_INSERT_UNCHECKED { PS::of(Prop::C18) } else { P01 };
        let st = if rejected { owner.and(Prop::C03) } else { owner };
        let id = if variant == OP_INSERT_UNCHECKED { P12.and(Prop::C18) } else { P12 };
        self.after(st, id);
    }

    pub fn note_clone_mutation(&mut self, w: usize) {
        if self.cloned_at.is_some() && self.slots[1].is_some() {
            if self.mutated_clone_side.is_none() {
                self.cx.bump(S::mutate_after_clone);
            }
            if let Some(prev) = self.mutated_clone_side {
                if prev != w {
                    self.cx.bump(S::observe_other_after_mutation);
                }
            }
            self.mutated_clone_side = Some(w);
        }
    }

    /// One lookup call by a query of type `QQ` (the borrowed form or the key type itself).
    #[allow(clippy::type_complexity)]
    pub fn do_lookup<QQ: PartialEq + ?Sized>(cx: &mut Ctx, m: &mut M<KD, N>, q: &QQ, opi: usize, v: u32) -> Result<Option<(u32, u32, usize, u32, usize)>, Pk>
    where
        KD::K: std::borrow::Borrow<QQ>,
    {
        use std::ops::{Index, IndexMut};
        match opi {
            OP_GET => Self::lib(cx, || m.get::<QQ>(q).map(|x| (KD::vval(x), KD::vid(x), addr(x), NOID, 0))),
            OP_GET_MUT => Self::lib(cx, || {
                m.get_mut::<QQ>(q).map(|x| {
                    let r = (KD::vval(x), KD::vid(x), addr(x), NOID, 0);
                    KD::vset(x, v);
                    r
                })
            }),
            OP_GET_KV => Self::lib(cx, || m.get_key_value::<QQ>(q).map(|(kk, x)| (KD::vval(x), KD::vid(x), addr(x), KD::kid(kk), addr(kk)))),
            OP_CONTAINS => Self::lib(cx, || if m.contains_key::<QQ>(q) { Some((0, NOID, 0, NOID, 0)) } else { None }),
            OP_INDEX => Self::lib(cx, || {
                let x = <M<KD, N> as Index<&QQ>>::index(m, q);
                Some((KD::vval(x), KD::vid(x), addr(x), NOID, 0))
            }),
            _ => Self::lib(cx, || {
                let x = <M<KD, N> as IndexMut<&QQ>>::index_mut(m, q);
                let r = (KD::vval(x), KD::vid(x), addr(x), NOID, 0);
                KD::vset(x, v);
                Some(r)
            }),
        }
    }

    pub fn op_lookup(&mut self, w: usize, opi: usize, a: u8, b: u8, c: u8) {
        let k = self.key_of(a);
        let v = self.newval(b);
        let form = c & 1;
        let liar = self.liar;
        let mut fault = false;
        {
            let Some(slot) = self.slots[w].as_mut() else { return };
            let cx = &mut *self.cx;
            let want = slot.model.get(&k).copied();
            cx.bump(S::lookups);
            if form == 0 {
                cx.bump(S::lookups_borrowed);
            }
            if want.is_some() {
                cx.bump(S::lookups_hit);
            }
            let qo = KD::qo_alt(k, c as usize >> 1);
            let probe = KD::key(k);
            // (present, val, vid, value address, key id, key address)
            type Got = Option<(u32, u32, usize, u32, usize)>;
            let writes = matches!(opi, OP_GET_MUT | OP_INDEX_MUT);
            let r: Result<Got, Pk> = {
                let m = &mut slot.c.m;
                if form == 0 {
                    Self::do_lookup::<KD::Q>(cx, m, KD::q(&qo), opi, v)
                } else {
                    Self::do_lookup::<KD::K>(cx, m, &probe, opi, v)
                }
            };
            drop(probe);
            cx.log(|| format!("{}[{w}]({k}, form {}) -> {:?}   (model {:?})", OP_NAMES[opi], if form == 0 { "borrowed" } else { "key" }, r, want));
            let indexing = matches!(opi, OP_INDEX | OP_INDEX_MUT);
            match (&r, want) {
                (Ok(Some(g)), Some(e)) => {
                    if opi != OP_CONTAINS {
                        cx.chk(P01, g.0 == e.val && (!KD::IDENT || g.1 == e.vid), "lookup", || format!("{}({k}) gave value {} (#{}) but the model has {} (#{})", OP_NAMES[opi], g.0, g.1, e.val, e.vid));
                        cx.bump(S::addr_checks);
                        cx.chk(P_ADDR, slot.c.contains(g.2, std::mem::size_of::<KD::V>()), "addr", || "returned value reference points outside the container".into());
                    }
                    if opi == OP_GET_KV {
                        if KD::IDENT {
                            cx.chk(P12, g.3 == e.kid, "exposed-key-identity", || format!("get_key_value exposes key object #{}, stored is #{}", g.3, e.kid));
                        }
                        cx.chk(P_ADDR, slot.c.contains(g.4, std::mem::size_of::<KD::K>()), "addr", || "returned key reference points outside the container".into());
                    }
                    if writes {
                        slot.model.insert(k, Ent { val: v, ..e });
                    }
                }
                (Ok(None), None) => {}
                (Err(p), None) if indexing && *p != Pk::Injected => {
                    cx.bump(S::index_panics);
                    cx.bump(S::lib_panics);
                    self.lib_panicked = true;
                }
                (Err(Pk::Injected), _) => fault = true,
                (other, _) => {
                    if !liar {
                        let o = format!("{other:?}");
                        cx.chk(P01, false, "lookup", || format!("{}({k}) gave {o} but the model has {want:?}", OP_NAMES[opi]));
                    }
                }
            }
            self.groups |= 2;
        }
        self.note_fault(fault, false);
        self.after(P01, P12);
    }

    pub fn op_remove(&mut self, w: usize, opi: usize, a: u8, c: u8) {
        let k = self.key_of(a);
        let form = c & 1;
        let liar = self.liar;
        let mut fault = false;
        {
            let Some(slot) = self.slots[w].as_mut() else { return };
            let cx = &mut *self.cx;
            let want = slot.model.get(&k).copied();
            let qo = KD::qo_alt(k, c as usize >> 1);
            let probe = KD::key(k);
            let m = &mut slot.c.m;
            // (val, vid, kid)
            let r: Result<Option<(u32, u32, u32)>, Pk> = if opi == OP_REMOVE {
                if form == 0 {
                    Self::lib(cx, || m.remove::<KD::Q>(KD::q(&qo)))
                } else {
                    Self::lib(cx, || m.remove::<KD::K>(&probe))
                }
                .map(|o| o.map(|v| (KD::vval(&v), KD::vid(&v), NOID)))
            } else {
                if form == 0 {
                    Self::lib(cx, || m.remove_entry::<KD::Q>(KD::q(&qo)))
                } else {
                    Self::lib(cx, || m.remove_entry::<KD::K>(&probe))
                }
                .map(|o| o.map(|(kk, v)| (KD::vval(&v), KD::vid(&v), KD::kid(&kk))))
            };
            drop(probe);
            cx.log(|| format!("{}[{w}]({k}) -> {:?}   (model {:?})", OP_NAMES[opi], r, want));
            match (&r, want) {
                (Ok(Some(g)), Some(e)) => {
                    cx.chk(P01, g.0 == e.val && (!KD::IDENT || g.1 == e.vid), "return", || format!("{}({k}) returned value {} (#{}) but the model had {} (#{})", OP_NAMES[opi], g.0, g.1, e.val, e.vid));
                    if opi == OP_REMOVE_ENTRY && KD::IDENT {
                        cx.chk(P12, g.2 == e.kid, "exposed-key-identity", || format!("remove_entry returned key object #{}, stored was #{}", g.2, e.kid));
                    }
                    cx.bump(S::removals);
                    if slot.order.last() != Some(&k) {
                        cx.bump(S::swap_removals);
                        slot.swapped = true;
                    }
                    slot.model.remove(&k);
                }
                (Ok(None), None) => {}
                (Err(Pk::Injected), _) => fault = true,
                (other, _) => {
                    if !liar {
                        let o = format!("{other:?}");
                        cx.chk(P01, false, "return", || format!("{}({k}) gave {o} but the model has {want:?}", OP_NAMES[opi]));
                    }
                    if other.is_ok() {
                        slot.model.remove(&k);
                    }
                }
            }
            cx.bump(S::mutations);
            if self.lib_panicked {
                cx.bump(S::mutation_after_lib_panic);
            }
            self.last_ret[w] = match &r {
                Ok(Some(g)) => 3 | ((g.0 as u64) << 8),
                Ok(None) => 2,
                Err(_) => 0xFF,
            };
            self.groups |= 4;
        }
        self.note_fault(fault, true);
        self.note_clone_mutation(w);
        self.after(P01, P12);
    }

    pub fn op_retain(&mut self, w: usize, a: u8, b: u8, c: u8) {
        let mask: u32 = b as u32 | ((c as u32) << 8);
        let rewrite = a & 1 == 1;
        // positional predicate: the verdict depends on how many entries were visited before, not
        // on the key (a stateful FnMut); the model follows the verdicts actually given
        let positional = a & 0x40 != 0;
        let base = self.newval(0);
        let mut fault = false;
        let liar = self.liar;
        {
            let Some(slot) = self.slots[w].as_mut() else { return };
            let cx = &mut *self.cx;
            let keep = |raw: u8| (mask >> (raw % 15)) & 1 == 1;
            let nv = |raw: u8| KD::vnorm(base | raw as u32);
            let m = &mut slot.c.m;
            let mut visits = [0u8; 256];
            let mut verdict = [false; 256];
            let mut calls = 0u32;
            // addresses of the references the predicate receives (no allocation inside the window)
            let mut seen_refs: Vec<(usize, usize)> = Vec::with_capacity(N + 2);
            let r = Self::lib(cx, || {
                m.retain(|kk, vv| {
                    tl::tick(Cb::Pred);
                    if seen_refs.len() < seen_refs.capacity() {
                        seen_refs.push((addr(kk), addr(vv)));
                    }
                    let raw = KD::kraw(kk);
                    visits[raw as usize] = visits[raw as usize].saturating_add(1);
                    let kp = if positional { (mask >> (calls % 15)) & 1 == 1 } else { keep(raw) };
                    calls += 1;
                    verdict[raw as usize] = kp;
                    if kp && rewrite {
                        KD::vset(vv, nv(raw));
                    }
                    kp
                })
            });
            cx.log(|| format!("retain[{w}](mask {mask:#x}, rewrite {rewrite}) -> {r:?}"));
            cx.bump(S::retains);
            for (ka, va) in &seen_refs {
                cx.bump(S::addr_checks);
                let inside = slot.c.contains(*ka, std::mem::size_of::<KD::K>()) && slot.c.contains(*va, std::mem::size_of::<KD::V>());
                cx.chk(P_ADDR, inside, "addr", || "retain handed its predicate a reference that points outside the container value".into());
            }
            match r {
                Ok(()) => {
                    let before = slot.model.len();
                    let keys: Vec<u8> = slot.model.keys().copied().collect();
                    let mut removed_nonlast = false;
                    if !liar {
                        // an ideal dictionary puts every entry to the predicate exactly once
                        for raw in 0..=255u8 {
                            let want = if slot.model.contains_key(&raw) { 1 } else { 0 };
                            let got = visits[raw as usize];
                            cx.chk(P01, got == want, "retain-visits", || format!("retain called its predicate {got} time(s) for key {raw} (stored: {})", want == 1));
                        }
                    }
                    for kk in keys {
                        if !verdict[kk as usize] {
                            if slot.order.last() != Some(&kk) {
                                removed_nonlast = true;
                            }
                            slot.model.remove(&kk);
                        } else if rewrite {
                            let e = slot.model[&kk];
                            slot.model.insert(kk, Ent { val: nv(kk), ..e });
                        }
                    }
                    if slot.model.len() < before {
                        cx.bump(S::retain_removed);
                        if removed_nonlast {
                            cx.bump(S::swap_removals);
                            slot.swapped = true;
                        }
                    }
                }
                Err(p) => fault = unexpected(cx, liar, P01, &p),
            }
            cx.bump(S::mutations);
            if self.lib_panicked {
                cx.bump(S::mutation_after_lib_panic);
            }
            self.groups |= 4;
        }
        self.note_fault(fault, true);
        self.note_clone_mutation(w);
        self.after(P01, P12);
    }

    pub fn op_clear(&mut self, w: usize) {
        let mut fault = false;
        let liar = self.liar;
        {
            let Some(slot) = self.slots[w].as_mut() else { return };
            let cx = &mut *self.cx;
            let m = &mut slot.c.m;
            let r = Self::lib(cx, || m.clear());
            cx.log(|| format!("clear[{w}]() -> {r:?}"));
            cx.bump(S::clears);
            match r {
                Ok(()) => slot.model.clear(),
                Err(p) => fault = unexpected(cx, liar, P01, &p),
            }
            cx.bump(S::mutations);
            self.groups |= 4;
        }
        self.note_fault(fault, true);
        self.note_clone_mutation(w);
        self.after(P01, P12);
    }
}
