//! clone (C15), get_disjoint_mut (C13/C17/C18), overflow sweep (C03), fmt (C19), eq, capacity,
//! bulk construction (C16).

use super::basic::unexpected;
use super::*;
use mmv_base::fmtutil::{fmt_debug, fmt_display, RefMap};
use mmv_base::tl::Cb;
use micromap::Entry;
use std::cell::Cell;

pub const P13: PS = PS::of(Prop::C13);
pub const P14: PS = PS::of(Prop::C14);
pub const P15: PS = PS::of(Prop::C15);
pub const P16: PS = PS::of(Prop::C16);
pub const P17: PS = PS::of(Prop::C17);
pub const P18: PS = PS::of(Prop::C18);
pub const P19: PS = PS::of(Prop::C19);
pub const P03: PS = PS::of(Prop::C03);

/// Source iterator that counts pulls and ticks the fuse.
pub struct Src<'a, T> {
    pub it: std::vec::IntoIter<T>,
    pub pulled: &'a Cell<usize>,
    pub hint: u8,
    /// a source that is not fused: items it would hand out if polled again after it has
    /// returned None (a `for` loop never does that; they must not reach the container)
    pub after: Vec<T>,
    pub ended: bool,
}
impl<T> Iterator for Src<'_, T> {
    type Item = T;
    fn next(&mut self) -> Option<T> {
        tl::tick(Cb::SrcNext);
        let mut x = self.it.next();
        if x.is_none() {
            if self.ended {
                x = self.after.pop();
            }
            self.ended = true;
        }
        if x.is_some() {
            self.pulled.set(self.pulled.get() + 1);
        }
        x
    }
    /// what the source reports as size_hint: four truthful shapes (a lower bound that is not above,
    /// an upper bound that is not below the number of items still to come) and, when bits 3 and 4
    /// of `hint` are both set, four untruthful ones
    fn size_hint(&self) -> (usize, Option<usize>) {
        let n = self.it.len();
        if self.hint & 0x18 == 0x18 {
            // a source whose size_hint is wrong (safe code may get it wrong; the container must
            // not rely on it for memory safety or for its capacity check)
            return match self.hint & 3 {
                0 => (0, Some(0)),
                1 => (n / 2, Some(n / 2)),
                2 => (n + 2, Some(n + 2)),
                _ => (0, Some(n.saturating_sub(1))),
            };
        }
        match self.hint & 3 {
            0 => (n, Some(n)),
            1 => (0, None),
            2 => (n, None),
            _ => (0, Some(n)),
        }
    }
}

impl<'c, KD: Kind, const N: usize> MapEng<'c, KD, N> {
    fn drop_slot1(&mut self) -> bool {
        let mut fault = false;
        if let Some(old) = self.slots[1].take() {
            let c = old.c;
            if let Err(p) = tl::lib(move || drop(c)) {
                fault = unexpected(self.cx, self.liar, P_ALL, &p);
            }
        }
        fault
    }

    pub fn op_clone(&mut self, a: u8, _b: u8) {
        if self.lockstep {
            return;
        }
        let sub = scale(a, 8);
        let liar = self.liar;
        let mut fault = false;
        match sub {
            5 => {
                self.cx.log(|| "drop secondary".into());
                fault |= self.drop_slot1();
                self.cloned_at = None;
            }
            6 => {
                if self.slots[1].is_some() {
                    self.cx.log(|| "swap primary/secondary".into());
                    self.slots.swap(0, 1);
                }
            }
            4 | 7 if self.slots[1].is_some() => {
                // Clone::clone_from into an existing container: dst.clone_from(&src) must leave
                // dst with exactly src's entries, whatever dst held (more, fewer, other entries)
                let (di, si) = if sub == 7 { (1, 0) } else { (0, 1) };
                let step = self.cx.step;
                let (a0, a1) = self.slots.split_at_mut(1);
                let (dst, src) = if di == 1 { (a1[0].as_mut().unwrap(), a0[0].as_ref().unwrap()) } else { (a0[0].as_mut().unwrap(), a1[0].as_ref().unwrap()) };
                let cx = &mut *self.cx;
                let (nd, ns) = (dst.model.len(), src.model.len());
                cx.bump(S::clones);
                cx.bump(S::clone_froms);
                if nd > ns {
                    cx.bump(S::clone_from_shrinks);
                }
                if ns >= 2 {
                    cx.bump(S::clones_ge2);
                }
                let calls0 = KD::clone_calls();
                let counts_cf = if KD::TRACKED { tl::ledger_clone_counts() } else { vec![] };
                let dm = &mut dst.c.m;
                let r = Self::lib(cx, || dm.clone_from(&src.c.m));
                cx.log(|| format!("slot{di}.clone_from(slot{si}) ({nd} <- {ns} entries) -> {}", if r.is_ok() { "ok" } else { "panic" }));
                match r {
                    Ok(()) => {
                        let obs = Self::observe(&dst.c).unwrap_or_default();
                        dst.model.clear();
                        for (raw, e) in &src.model {
                            let ent = match obs.iter().find(|o| o.raw == *raw) {
                                Some(o) => Ent { kid: o.kid, vid: o.vid, val: e.val },
                                None => Ent { kid: NOID, vid: NOID, val: e.val },
                            };
                            dst.model.insert(*raw, ent);
                        }
                        if !liar {
                            if KD::COUNTS_CLONES {
                                let d = KD::clone_calls() - calls0;
                                cx.chk(P15, d <= KD::CLONES_PER_ENTRY * ns as u64, "clone-count", || format!("clone_from of {ns} entries made {d} Clone::clone calls"));
                            }
                            if KD::TRACKED {
                                // no stored object of the source is cloned more than once
                                let counts1 = tl::ledger_clone_counts();
                                for (i, c0) in counts_cf.iter().enumerate() {
                                    let d = counts1[i] - c0;
                                    cx.chk(P15, d <= 1, "clone-count", || format!("object #{i} was cloned {d} times during clone_from"));
                                }
                            }
                            let eq = Self::lib(cx, || dst.c.m == src.c.m);
                            cx.chk(P15, eq == Ok(true), "clone-equal", || format!("after dst.clone_from(&src), dst == src gives {eq:?}"));
                        }
                        dst.swapped = false;
                        self.cloned_at = Some(step);
                        self.mutated_clone_side = None;
                    }
                    Err(p) => fault |= unexpected(cx, liar, P15, &p),
                }
            }
            _ => {
                // clone primary -> secondary
                fault |= self.drop_slot1();
                let step = self.cx.step;
                let src = self.slots[0].as_ref().unwrap();
                let cx = &mut *self.cx;
                let n = src.model.len();
                cx.bump(S::clones);
                if n >= 2 {
                    cx.bump(S::clones_ge2);
                }
                if n == N {
                    cx.bump(S::clones_full);
                }
                if n == 0 {
                    cx.bump(S::clones_empty);
                }
                let counts0 = if KD::TRACKED { tl::ledger_clone_counts() } else { vec![] };
                let calls0 = KD::clone_calls();
                let gens0: Vec<(u8, u32, u32)> = if KD::COUNTS_CLONES { tl::quiet(|| src.c.m.iter().map(|(k, v)| (KD::kraw(k), KD::kgen(k), KD::vgen(v))).collect()).unwrap_or_default() } else { vec![] };
                let r = Self::lib(cx, || src.c.m.clone());
                cx.log(|| format!("clone primary ({n} entries) -> {}", if r.is_ok() { "ok" } else { "panic" }));
                match r {
                    Ok(newmap) => {
                        let mut ns: Slot<KD, N> = Slot::new();
                        *ns.c = Caged::new(newmap);
                        let obs = Self::observe(&ns.c).unwrap_or_default();
                        if KD::TRACKED && !liar {
                            let counts1 = tl::ledger_clone_counts();
                            let stored: Vec<u32> = src.model.values().flat_map(|e| [e.kid, e.vid]).collect();
                            for (i, c0) in counts0.iter().enumerate() {
                                let d = counts1[i] - c0;
                                let want = if stored.contains(&(i as u32)) { 1 } else { 0 };
                                cx.chk(P15, d == want, "clone-count", || format!("object #{i} was cloned {d} time(s) during clone(), expected {want}"));
                            }
                            let created = counts1.len() - counts0.len();
                            cx.chk(P15, created == 2 * n, "clone-count", || format!("clone() of {n} entries created {created} objects, expected {}", 2 * n));
                        }
                        if KD::COUNTS_CLONES && !liar {
                            // payload without drop glue: every stored key and value still goes through Clone::clone, once
                            let d = KD::clone_calls() - calls0;
                            let want_calls = KD::CLONES_PER_ENTRY * n as u64;
                            cx.chk(P15, d == want_calls, "clone-count", || format!("clone() of {n} entries made {d} Clone::clone calls, expected {want_calls}"));
                            let gens1: Vec<(u8, u32, u32)> = tl::quiet(|| ns.c.m.iter().map(|(k, v)| (KD::kraw(k), KD::kgen(k), KD::vgen(v))).collect()).unwrap_or_default();
                            for (raw, kg, vg) in gens0.iter().filter(|_| KD::STAMPS_GEN) {
                                let got = gens1.iter().find(|g| g.0 == *raw).map(|g| (g.1, g.2));
                                cx.chk(P15, got == Some((kg + 1, vg + 1)), "clone-origin", || format!("entry {raw} of the clone is not a Clone::clone of the original entry (generations {got:?}, original ({kg}, {vg}))"));
                            }
                        }
                        for (raw, e) in &src.model {
                            let o = obs.iter().find(|o| o.raw == *raw);
                            let ent = match o {
                                Some(o) => {
                                    if KD::TRACKED && !liar {
                                        let fk = tl::ledger_obj(o.kid).map(|x| x.from);
                                        let fv = tl::ledger_obj(o.vid).map(|x| x.from);
                                        cx.chk(P15, fk == Some(e.kid) && fv == Some(e.vid), "clone-origin", || format!("entry {raw} of the clone was not cloned from the original entry's own key and value"));
                                    }
                                    Ent { kid: o.kid, vid: o.vid, val: e.val }
                                }
                                None => Ent { kid: NOID, vid: NOID, val: e.val },
                            };
                            ns.model.insert(*raw, ent);
                        }
                        if !liar {
                            let eq = Self::lib(cx, || ns.c.m == src.c.m);
                            cx.chk(P15, eq == Ok(true), "clone-equal", || format!("clone == original gives {eq:?}"));
                        }
                        self.slots[1] = Some(ns);
                        self.cloned_at = Some(step);
                        self.mutated_clone_side = None;
                    }
                    Err(p) => fault |= unexpected(cx, liar, P15, &p),
                }
            }
        }
        self.note_fault(fault, true);
        self.cur_target = 2;
        self.after(P15, P15);
    }

    /// Request arrays longer than 32 / 64 keys (only for the large capacities): J distinct keys
    /// in ascending or descending order from a generated start, optionally with one repeat.
    fn op_disjoint_big(&mut self, w: usize, a: u8, b: u8, c: u8, unchecked: bool) {
        let u = self.univ as usize;
        let form = a & 1;
        let start = b as usize % u;
        let down = a & 8 != 0;
        let key_at = |i: usize| (if down { start + u - (i % u) } else { start + i } % u) as u8;
        self.cx.bump(S::disjoint_calls);
        self.cx.bump(S::disjoint_big);
        macro_rules! big {
            ($j:literal) => {{
                let mut keys: [u8; $j] = core::array::from_fn(key_at);
                if c & 0x20 != 0 {
                    keys[$j - 1 - (c as usize & 7)] = keys[(c as usize >> 3) & 3];
                }
                self.disjoint_j::<$j>(w, keys, form, unchecked)
            }};
        }
        // request arrays of 32 / 33 / 64 / 65 keys (as far as the universe has that many keys)
        let sel = (a >> 1) & 3;
        let f = if u >= 65 && N >= 64 && sel == 3 {
            big!(65)
        } else if u >= 64 && N >= 64 && sel == 2 {
            big!(64)
        } else if u >= 33 && sel & 1 == 1 {
            big!(33)
        } else if u >= 32 {
            big!(32)
        } else {
            false
        };
        self.note_fault(f, false);
        let owner = if unchecked { P13.and(Prop::C18) } else { P13 };
        self.after(owner, P12);
    }

    pub fn op_disjoint(&mut self, w: usize, a: u8, b: u8, c: u8, unchecked: bool) {
        if N >= 32 && c & 0x40 != 0 {
            return self.op_disjoint_big(w, a, b, c, unchecked);
        }
        let j = scale(a, 6);
        let form = a & 1;
        let u = self.univ as u32;
        let mut x = b as u32 | ((c as u32) << 8);
        let mut keys = [0u8; 5];
        for k in keys.iter_mut() {
            *k = (x % u) as u8;
            x /= u;
        }
        self.cx.bump(S::disjoint_calls);
        let f = match j {
            0 => self.disjoint_j::<0>(w, [], form, unchecked),
            1 => self.disjoint_j::<1>(w, [keys[0]], form, unchecked),
            2 => self.disjoint_j::<2>(w, [keys[0], keys[1]], form, unchecked),
            3 => self.disjoint_j::<3>(w, [keys[0], keys[1], keys[2]], form, unchecked),
            4 => self.disjoint_j::<4>(w, [keys[0], keys[1], keys[2], keys[3]], form, unchecked),
            _ => self.disjoint_j::<5>(w, keys, form, unchecked),
        };
        self.note_fault(f, false);
        let owner = if unchecked { P13.and(Prop::C18) } else { P13 };
        self.after(owner, P12);
    }

    /// All request tuples of length 2 and 3 (and 4 for small universes) over the universe.
    pub fn op_disjoint_sweep(&mut self, w: usize, a: u8) {
        let u = self.univ.min(5);
        let form = a & 1;
        let mut f = false;
        for k0 in 0..u {
            for k1 in 0..u {
                f |= self.disjoint_j::<2>(w, [k0, k1], form, false);
                self.cx.bump(S::disjoint_tuples);
                for k2 in 0..u {
                    f |= self.disjoint_j::<3>(w, [k0, k1, k2], form, false);
                    self.cx.bump(S::disjoint_tuples);
                    if u <= 4 {
                        for k3 in 0..u {
                            f |= self.disjoint_j::<4>(w, [k0, k1, k2, k3], form, false);
                            self.cx.bump(S::disjoint_tuples);
                        }
                    }
                    if self.cx.failed() {
                        return;
                    }
                }
            }
        }
        self.note_fault(f, false);
        self.after(P13, P12);
    }

    fn disjoint_j<const J: usize>(&mut self, w: usize, keys: [u8; J], form: u8, unchecked: bool) -> bool {
        let liar = self.liar;
        let base = self.newval(0);
        let mut fault = false;
        let Some(slot) = self.slots[w].as_mut() else { return false };
        let cx = &mut *self.cx;
        let mut dup_present = false;
        let mut dup_any = false;
        for i in 0..J {
            for jx in i + 1..J {
                if keys[i] == keys[jx] {
                    dup_any = true;
                    if slot.model.contains_key(&keys[i]) {
                        dup_present = true;
                    }
                }
            }
        }
        let unchecked = unchecked && !dup_any && !liar;
        if unchecked {
            cx.bump(S::unchecked_disjoint);
            self.op_unchecked = true;
        }
        let owner = if unchecked { P18 } else { P13 };
        // what get_mut returns for each key, just before
        let mut want_addr = [0usize; J];
        if !liar {
            for i in 0..J {
                let qo = KD::qo(keys[i]);
                let m = &mut slot.c.m;
                want_addr[i] = tl::quiet(|| m.get_mut(KD::q(&qo)).map(|v| addr(v)).unwrap_or(0)).unwrap_or(0);
            }
        }
        // request order vs slot order (non-triviality)
        let mut pos: Vec<usize> = Vec::new();
        for k in keys.iter() {
            if let Some(p) = slot.order.iter().position(|r| r == k) {
                pos.push(p);
            }
        }
        if pos.len() >= 2 && pos.windows(2).any(|w2| w2[0] > w2[1]) && slot.swapped && !dup_any {
            cx.bump(S::disjoint_reordered);
        }
        // equal queries may be spelled differently (borrowed forms whose equality is not byte equality)
        let qos: [KD::QO; J] = core::array::from_fn(|i| KD::qo_alt(keys[i], i));
        let probes: [KD::K; J] = core::array::from_fn(|i| KD::key(keys[i]));
        let nv = |i: usize| KD::vnorm(base | ((i as u32) << 5) | 0x10);
        let m = &mut slot.c.m;
        let mut idx = 0usize;
        // under C09 nothing is written through the references: the call is a pure look-up, and
        // the order of iteration has to be what it was
        let nowrite = cx.armed == Prop::C09;
        let mut conv = |o: Option<&mut KD::V>| {
            let i = idx;
            idx += 1;
            o.map(|v| {
                let t = (addr(v), KD::vval(v), KD::vid(v));
                if !nowrite {
                    KD::vset(v, nv(i));
                }
                t
            })
        };
        let r: Result<[Option<(usize, u32, u32)>; J], Pk> = if form == 0 {
            let refs: [&KD::Q; J] = core::array::from_fn(|i| KD::q(&qos[i]));
            if unchecked {
                Self::lib(cx, || unsafe { m.get_disjoint_unchecked_mut::<KD::Q, J>(refs) }.map(&mut conv))
            } else {
                Self::lib(cx, || m.get_disjoint_mut::<KD::Q, J>(refs).map(&mut conv))
            }
        } else {
            let refs: [&KD::K; J] = core::array::from_fn(|i| &probes[i]);
            if unchecked {
                Self::lib(cx, || unsafe { m.get_disjoint_unchecked_mut::<KD::K, J>(refs) }.map(&mut conv))
            } else {
                Self::lib(cx, || m.get_disjoint_mut::<KD::K, J>(refs).map(&mut conv))
            }
        };
        drop(probes);
        cx.log(|| format!("get_disjoint{}_mut[{w}]({keys:?}, form {form}) -> {:?}", if unchecked { "_unchecked" } else { "" }, r.as_ref().map(|a| a.iter().map(|o| o.map(|t| t.1)).collect::<Vec<_>>())));
        match &r {
            Ok(res) => {
                // never aliasing, always inside the map
                for i in 0..J {
                    if let Some(t) = res[i] {
                        cx.bump(S::addr_checks);
                        cx.chk(P_ADDR.and(Prop::C13).and(Prop::C17), slot.c.contains(t.0, std::mem::size_of::<KD::V>()), "addr", || "get_disjoint_mut returned a reference outside the map".into());
                        for jx in i + 1..J {
                            if let Some(t2) = res[jx] {
                                let alias = t.0 == t2.0 && std::mem::size_of::<KD::V>() > 0;
                                cx.chk(owner.and(Prop::C17), !alias, "aliasing", || format!("positions {i} and {jx} received mutable references to the same value"));
                            }
                        }
                    }
                }
                if liar {
                    // values were written through whatever references came back; nothing else to check
                } else if dup_present {
                    cx.chk(owner, false, "overlap-not-rejected", || format!("two equal present keys in {keys:?} did not panic"));
                } else if dup_any {
                    // equal absent keys: the statement is silent
                } else {
                    for i in 0..J {
                        let e = slot.model.get(&keys[i]).copied();
                        match (res[i], e) {
                            (Some(t), Some(e)) => {
                                cx.chk(owner, t.0 == want_addr[i], "position", || format!("position {i} (key {}) does not refer to the value get_mut returns for that key", keys[i]));
                                cx.chk(owner, t.1 == e.val && (!KD::IDENT || t.2 == e.vid), "position", || format!("position {i} (key {}) holds value {}, get_mut would give {}", keys[i], t.1, e.val));
                            }
                            (None, None) => {}
                            (got, _) => {
                                cx.chk(owner, false, "presence", || format!("position {i} (key {}): got {:?} but the key is {}", keys[i], got.map(|t| t.1), if e.is_some() { "present" } else { "absent" }));
                            }
                        }
                    }
                }
                if !liar {
                    for i in 0..J {
                        if res[i].is_some() && !nowrite {
                            if let Some(e) = slot.model.get_mut(&keys[i]) {
                                e.val = nv(i);
                            }
                        }
                    }
                    // written-through values are what get returns afterwards (cheap per-tuple check)
                    if !dup_any {
                        for i in 0..J {
                            if let Some(e) = slot.model.get(&keys[i]) {
                                let qo = KD::qo(keys[i]);
                                let got = tl::quiet(|| slot.c.m.get(KD::q(&qo)).map(|v| KD::vval(v)));
                                cx.chk(owner, got == Ok(Some(e.val)), "write-visible", || format!("value written through position {i} (key {}) is not what get returns: {got:?} vs {}", keys[i], e.val));
                            }
                        }
                    }
                }
            }
            Err(p) if *p != Pk::Injected => {
                cx.bump(S::disjoint_overlap_panics);
                cx.bump(S::lib_panics);
                self.lib_panicked = true;
                if !liar {
                    cx.chk(owner, dup_any, "spurious-overlap", || format!("pairwise different keys {keys:?} were rejected as overlapping"));
                }
            }
            Err(p) => {
                fault = unexpected(cx, liar, owner, p);
            }
        }
        self.last_ret[w] = match &r {
            Ok(res) => res.iter().fold(7u64, |h, o| h.wrapping_mul(31).wrapping_add(o.map(|t| t.1 as u64 + 1).unwrap_or(0))),
            Err(_) => 0xFF,
        };
        fault
    }

    /// C03: drive the container to `len == N`, then try every safe insertion entry point with a
    /// key that is not present; then replace a present key through every path.
    pub fn op_overflow_sweep(&mut self, w: usize, a: u8, b: u8) {
        let Some(slot) = self.slots[w].as_ref() else { return };
        let had_removal = slot.swapped;
        // fill up
        let mut guard = 0;
        while self.slots[w].as_ref().unwrap().model.len() < N && guard < N + 2 {
            let model = &self.slots[w].as_ref().unwrap().model;
            let k = (0..KD::MAX_UNIV.min(250) as u16).map(|i| ((i + (a % self.univ) as u16) % KD::MAX_UNIV.min(250) as u16) as u8).find(|r| !model.contains_key(r));
            let Some(k) = k else { break };
            let v = self.newval(guard as u8);
            self.op_insert_k(w, OP_INSERT, k, v);
            guard += 1;
            if self.cx.failed() {
                return;
            }
        }
        let model = &self.slots[w].as_ref().unwrap().model;
        if model.len() != N {
            return;
        }
        let absent = (0..KD::MAX_UNIV.min(250) as u16).map(|i| ((i + b as u16) % KD::MAX_UNIV.min(250) as u16) as u8).find(|r| !model.contains_key(r));
        self.cx.bump(S::overflow_probes);
        if had_removal || N == 0 {
            self.cx.bump(S::overflow_probes_after_removal);
        }
        if let Some(k) = absent {
            for ep in 0..8 {
                self.probe_overflow(w, ep, k);
                self.cx.bump(S::overflow_entry_points);
                if self.cx.failed() {
                    return;
                }
            }
        }
        // a present key can still be replaced through every path
        let present: Option<u8> = self.slots[w].as_ref().unwrap().model.keys().nth(b as usize % N.max(1)).copied();
        if let Some(k) = present {
            for variant in [OP_INSERT, OP_INSERT_KV, OP_CHECKED] {
                let v = self.newval(variant as u8);
                self.op_insert_k(w, variant, k, v);
                if self.cx.failed() {
                    return;
                }
            }
        }
    }

    fn probe_overflow(&mut self, w: usize, ep: usize, k: u8) {
        let v = self.newval(ep as u8);
        let liar = self.liar;
        let mut fault = false;
        const NAMES: [&str; 8] = ["insert", "insert_key_value", "checked_insert", "entry.or_insert", "entry.or_insert_with", "entry.or_insert_with_key", "entry.or_default", "vacant.insert"];
        {
            let slot = self.slots[w].as_mut().unwrap();
            let cx = &mut *self.cx;
            cx.cur_op = "overflow_sweep";
            self.op_overflow = true;
            let key = KD::key(k);
            let val = KD::val(v);
            let m = &mut slot.c.m;
            // Ok(true): returned normally "rejected" (checked_insert None); Ok(false): returned normally, accepted
            let r: Result<bool, Pk> = Self::lib(cx, || match ep {
                0 => {
                    let _ = m.insert(key, val);
                    false
                }
                1 => {
                    let _ = m.insert_key_value(key, val);
                    false
                }
                2 => m.checked_insert(key, val).is_none(),
                3 => {
                    let _ = m.entry(key).or_insert(val);
                    false
                }
                4 => {
                    let _ = m.entry(key).or_insert_with(|| val);
                    false
                }
                5 => {
                    let _ = m.entry(key).or_insert_with_key(|_| val);
                    false
                }
                6 => {
                    drop(val);
                    let _ = m.entry(key).or_default();
                    false
                }
                _ => match m.entry(key) {
                    Entry::Vacant(vac) => {
                        let _ = vac.insert(val);
                        false
                    }
                    Entry::Occupied(_) => false,
                },
            });
            cx.log(|| format!("overflow probe {}[{w}](absent key {k}) on a full map of {N} -> {r:?}", NAMES[ep]));
            match (&r, ep) {
                (Ok(true), 2) => cx.bump(S::checked_none),
                (Err(p), e) if e != 2 && *p != Pk::Injected => {
                    cx.bump(S::lib_panics);
                    cx.bump(S::rejected_inserts);
                }
                (Err(Pk::Injected), _) => fault = true,
                (other, _) => {
                    if !liar {
                        let o = format!("{other:?}");
                        cx.chk(P03, false, "overflow-not-rejected", || format!("{} of a new key into a full container of {N}: expected {}, got {o}", NAMES[ep], if ep == 2 { "None" } else { "a panic" }));
                    }
                }
            }
        }
        self.note_fault(fault, true);
        self.cur_target = w;
        self.after(P03, P03);
    }

    pub fn op_fmt(&mut self, w: usize, a: u8, b: u8) {
        if self.liar {
            return;
        }
        let mut fault = false;
        {
            let Some(slot) = self.slots[w].as_mut() else { return };
            let cx = &mut *self.cx;
            let sub = scale(a, 3);
            let obs = Self::observe(&slot.c).unwrap_or_default();
            let out = match sub {
                0 => fmt_debug::<KD>(cx, &slot.c.m, false),
                1 => fmt_debug::<KD>(cx, &slot.c.m, true),
                _ => fmt_display::<KD>(cx, &slot.c.m),
            };
            cx.bump(S::fmt_calls);
            // the same container under width / fill / sign / precision flags: allocation oracle only
            mmv_base::fmtutil::fmt_spec_noalloc::<KD>(cx, Some(&slot.c.m), Some(&slot.c.m), b);
            match out {
                Ok(out) => {
                    let want = match sub {
                        0 => {
                            let parts: Vec<(String, String)> = obs.iter().map(|o| (KD::kdbg(o.raw), KD::vdbg(o.val))).collect();
                            let by_std = format!("{:?}", RefMap(&parts));
                            let by_hand = format!("{{{}}}", parts.iter().map(|(k, v)| format!("{k}: {v}")).collect::<Vec<_>>().join(", "));
                            if by_std != by_hand {
                                format!("<reference renderers disagree: {by_std} vs {by_hand}>")
                            } else {
                                by_std
                            }
                        }
                        1 => {
                            let parts: Vec<(String, String)> = obs.iter().map(|o| (format!("{:#?}", KD::key(o.raw)), format!("{:#?}", KD::val(o.val)))).collect();
                            format!("{:#?}", RefMap(&parts))
                        }
                        _ => format!("{{{}}}", obs.iter().map(|o| format!("{}: {}", KD::kdisp(o.raw), KD::vdisp(o.val))).collect::<Vec<_>>().join(", ")),
                    };
                    cx.log(|| format!("fmt[{w}] form {sub}: {out:?}"));
                    cx.chk(P19, out == want, "container-format", || format!("form {sub}: rendered {out:?}, expected {want:?}"));
                    // Debug under other formatter options: the standard builder hands them to every entry
                    let spec = b as usize % mmv_base::fmtutil::NFLAGS;
                    let real: Vec<(KD::K, KD::V)> = tl::outside(|| obs.iter().map(|o| (KD::key(o.raw), KD::val(o.val))).collect());
                    let want2 = mmv_base::fmtutil::ref_debug_flags(&mmv_base::fmtutil::RealMap(&real), spec);
                    if let Ok(out2) = mmv_base::fmtutil::fmt_debug_flags::<KD>(cx, &slot.c.m, spec) {
                        cx.chk(P19, out2 == want2, "container-format-flags", || format!("Debug with {}: rendered {out2:?}, the standard map rendering of the same entries is {want2:?}", mmv_base::fmtutil::FLAG_NAMES[spec]));
                    }
                    // Display under width / fill / sign / precision options: the one layout, every
                    // entry rendered the same way (with the options or plainly)
                    let dspec = (b as usize / mmv_base::fmtutil::NFLAGS) % mmv_base::fmtutil::NDSPEC;
                    let ks: Vec<(String, String)> = real.iter().map(|(k, _)| (mmv_base::fmtutil::ref_display_spec(k, dspec), tl::outside(|| format!("{k}")))).collect();
                    let vs: Vec<(String, String)> = real.iter().map(|(_, v)| (mmv_base::fmtutil::ref_display_spec(v, dspec), tl::outside(|| format!("{v}")))).collect();
                    if let Ok(out3) = mmv_base::fmtutil::fmt_display_spec::<KD>(cx, &slot.c.m, dspec) {
                        cx.chk(P19, mmv_base::fmtutil::display_spec_accepts(&out3, &ks, Some(&vs)), "display-options", || format!("Display with {}: rendered {out3:?}; entries rendered with the options / plainly: {:?} / {:?}", mmv_base::fmtutil::DSPEC_NAMES[dspec], ks.iter().zip(vs.iter()).map(|(k, v)| format!("{}: {}", k.0, v.0)).collect::<Vec<_>>(), ks.iter().zip(vs.iter()).map(|(k, v)| format!("{}: {}", k.1, v.1)).collect::<Vec<_>>()));
                    }
                    tl::outside(|| drop(real));
                }
                Err(p) => fault = unexpected(cx, false, P19, &p),
            }
            self.groups |= 8;
        }
        self.note_fault(fault, false);
        self.after(P19, P19);
    }

    pub fn op_eq(&mut self, a: u8) {
        if self.liar {
            // comparison under a lying Eq: memory safety only
            if let (Some(x), Some(y)) = (self.slots[0].as_ref(), self.slots[1].as_ref()) {
                let _ = tl::lib(|| x.c.m == y.c.m);
            }
            self.after(PS::NONE, PS::NONE);
            return;
        }
        let mut fault = false;
        {
            let cx = &mut *self.cx;
            let x = self.slots[0].as_ref().unwrap();
            let y = self.slots[1].as_ref().unwrap_or(x);
            let want = x.model.len() == y.model.len() && x.model.iter().all(|(k, e)| y.model.get(k).map(|f| f.val) == Some(e.val));
            let sub = scale(a, 3);
            let r = match sub {
                0 => Self::lib(cx, || x.c.m == y.c.m),
                1 => Self::lib(cx, || y.c.m == x.c.m),
                _ => Self::lib(cx, || !(x.c.m != y.c.m)),
            };
            cx.bump(S::eq_calls);
            if want && !x.model.is_empty() && x.order != y.order {
                cx.bump(S::eq_equal_diff_order);
            }
            if !want {
                let differing = x.model.iter().filter(|(k, e)| y.model.get(k).map(|f| f.val) != Some(e.val)).count() + y.model.keys().filter(|k| !x.model.contains_key(k)).count();
                if differing <= 2 {
                    cx.bump(S::eq_near_miss);
                }
            }
            if want && x.model.len() > 32 {
                cx.bump(S::eq_equal_big);
            }
            cx.log(|| format!("eq form {sub} -> {r:?} (model {want})"));
            match r {
                Ok(got) => {
                    cx.chk(P14.and(Prop::C15), got == want, "equality", || format!("== gives {got} but the contents are {}", if want { "equal" } else { "different" }));
                }
                Err(p) => fault = unexpected(cx, false, P14, &p),
            }
            self.groups |= 8;
        }
        self.note_fault(fault, false);
        self.cur_target = 2;
        self.after(P14, P14);
    }

    pub fn op_cap(&mut self, w: usize, a: u8) {
        let Some(slot) = self.slots[w].as_ref() else { return };
        let cx = &mut *self.cx;
        let cap = slot.c.m.capacity();
        self.op_overflow = true;
        cx.chk(P03, cap == N, "capacity", || format!("capacity()={cap}, N={N}"));
        let c = scale(a, N + 3);
        #[allow(deprecated)]
        let r = Self::lib(cx, || M::<KD, N>::with_capacity(c));
        cx.log(|| format!("with_capacity({c}) for N={N} -> {}", if r.is_ok() { "ok" } else { "panic" }));
        match r {
            Ok(mm) => {
                cx.chk(P03, c == N, "with_capacity", || format!("with_capacity({c}) succeeded for N={N}"));
                cx.chk(P03, mm.len() == 0 && mm.capacity() == N, "with_capacity", || "with_capacity gave a non-empty map".into());
            }
            Err(p) if p != Pk::Injected => {
                cx.bump(S::lib_panics);
                cx.chk(P03, c != N, "with_capacity", || format!("with_capacity({c}) panicked for N={N}"));
            }
            Err(p) => {
                let f = unexpected(cx, self.liar, P03, &p);
                self.note_fault(f, false);
            }
        }
        self.after(PS::NONE, PS::NONE);
    }

    /// Bulk construction into the secondary slot: FromIterator / collect / From<[_; N]>,
    /// differential against one-by-one insertion and against the model.
    pub fn op_from_iter(&mut self, a: u8, b: u8, c: u8) {
        if self.lockstep {
            return;
        }
        let liar = self.liar;
        let mut fault = self.drop_slot1();
        self.cloned_at = None;
        // c is a 7-bit argument (the top bit of the byte selects the container)
        let sub = (c as usize * 3) >> 7;
        let hint = c;
        // a source with an untruthful size_hint: C16 (which is about well-behaved sources) stands
        // back, the capacity check (C03) and the standing memory-safety invariants stay armed
        let lying = hint & 0x18 == 0x18 && sub != 2;
        let p16 = if lying { PS::NONE } else { P16 };
        let len = if sub == 2 { N } else { scale(a, 3 * N + 3) };
        let u = self.univ as u32;
        let base = self.newval(0);
        // item keys from a small LCG over (a, b) so repeats are frequent
        let mut x = (a as u32) << 8 | b as u32 | 0x10000;
        let mut keys: Vec<u8> = Vec::with_capacity(len);
        for _ in 0..len {
            x = x.wrapping_mul(1103515245).wrapping_add(12345);
            keys.push(((x >> 16) % u) as u8);
        }
        // model fold
        let mut want: Vec<(u8, usize, usize)> = Vec::new(); // raw, index of kept key object, index of kept value
        let mut overflow_at: Option<usize> = None;
        for (i, k) in keys.iter().enumerate() {
            if let Some(e) = want.iter_mut().find(|e| e.0 == *k) {
                e.2 = i;
            } else if want.len() < N {
                want.push((*k, i, i));
            } else {
                overflow_at = Some(i);
                break;
            }
        }
        let cx = &mut *self.cx;
        cx.bump(S::bulk_calls);
        if lying {
            cx.bump(S::bulk_lying_hints);
        }
        if len > N && overflow_at.is_none() {
            cx.bump(S::bulk_longer_than_n);
        }
        // does a present key arrive again after the container became full? (C03's clause
        // "replacing the value of a present key succeeds on a full container")
        let mut repeat_after_full = false;
        if overflow_at.is_none() && want.len() == N && N > 0 {
            let full_at = want.iter().map(|e| e.1).max().unwrap_or(0);
            repeat_after_full = keys.iter().enumerate().any(|(i, _)| i > full_at);
            if keys.iter().enumerate().any(|(i, k)| i > full_at && *k == keys[0]) {
                cx.bump(S::bulk_repeat_after_full);
            }
        }
        if overflow_at.is_some() {
            cx.bump(S::bulk_overflow);
            self.op_overflow = true;
        }
        let items: Vec<(KD::K, KD::V)> = keys.iter().enumerate().map(|(i, k)| (KD::key(*k), KD::val(KD::vnorm(base + i as u32)))).collect();
        let ids: Vec<(u32, u32)> = items.iter().map(|(k, v)| (KD::kid(k), KD::vid(v))).collect();
        let pulled = Cell::new(0usize);
        // non-fused source: what it would yield if polled again after None (never part of the result)
        let mut after: Vec<(KD::K, KD::V)> = Vec::new();
        if hint & 4 != 0 && sub != 2 {
            for x in 0..2u32 {
                let k = ((a as u32 + x * 3) % u) as u8;
                after.push((KD::key(k), KD::val(KD::vnorm(base + 0x4000 + x))));
            }
            cx.bump(S::bulk_nonfused_sources);
        }
        let r: Result<M<KD, N>, Pk> = match sub {
            0 => {
                let src = Src { it: items.into_iter(), pulled: &pulled, hint, after, ended: false };
                Self::lib(cx, || M::<KD, N>::from_iter(src))
            }
            1 => {
                let src = Src { it: items.into_iter(), pulled: &pulled, hint, after, ended: false };
                Self::lib(cx, || src.collect::<M<KD, N>>())
            }
            _ => {
                let mut it = items.into_iter();
                let arr: [(KD::K, KD::V); N] = core::array::from_fn(|_| it.next().unwrap());
                pulled.set(N);
                Self::lib(cx, || M::<KD, N>::from(arr))
            }
        };
        let names = ["from_iter", "collect", "From<[_; N]>"];
        cx.log(|| format!("{}({:?}) into N={N} -> {}   (model: overflow at {:?})", names[sub], keys, match &r { Ok(m) => format!("ok len {}", m.len()), Err(p) => p.name() }, overflow_at));
        match r {
            Ok(newmap) => {
                let mut ns: Slot<KD, N> = Slot::new();
                *ns.c = Caged::new(newmap);
                if !liar {
                    cx.chk(p16.and(Prop::C03), overflow_at.is_none(), "overflow-not-rejected", || format!("{} distinct keys were accepted by a container of {N}", want.len() + 1));
                    if sub != 2 {
                        let p = pulled.get();
                        cx.chk(p16, p == len, "source-consumption", || format!("the source yielded {len} items but {p} were pulled"));
                    }
                    for e in &want {
                        ns.model.insert(e.0, Ent { kid: ids[e.1].0, vid: ids[e.2].1, val: KD::vnorm(base + e.2 as u32) });
                    }
                    // differential: one-by-one insertion of equivalent fresh items
                    if overflow_at.is_none() {
                        let mut refm: M<KD, N> = Map::new();
                        let mut rids: Vec<u32> = Vec::new();
                        let ok = tl::quiet(|| {
                            for (i, k) in keys.iter().enumerate() {
                                let kk = KD::key(*k);
                                rids.push(KD::kid(&kk));
                                refm.insert(kk, KD::val(KD::vnorm(base + i as u32)));
                            }
                        });
                        if ok.is_ok() {
                            let obs = Self::observe(&ns.c).unwrap_or_default();
                            let mut same = obs.len() == refm.len();
                            for o in &obs {
                                let qo = KD::qo(o.raw);
                                match tl::quiet(|| refm.get_key_value(KD::q(&qo)).map(|(k, v)| (KD::kid(k), KD::vval(v)))) {
                                    Ok(Some((rk, rv))) => {
                                        if rv != o.val {
                                            same = false;
                                        }
                                        if KD::IDENT {
                                            // same role: index of the supplied item whose key object is stored
                                            let role_ref = rids.iter().position(|x| *x == rk);
                                            let role_new = ids.iter().position(|x| x.0 == o.kid);
                                            if role_ref != role_new {
                                                same = false;
                                            }
                                        }
                                    }
                                    _ => same = false,
                                }
                            }
                            cx.chk(p16, same, "bulk-vs-inserts", || format!("{} of {keys:?} differs from inserting the items one by one", names[sub]));
                        }
                        let _ = tl::quiet(move || drop(refm));
                    }
                }
                self.slots[1] = Some(ns);
            }
            Err(p) if p != Pk::Injected => {
                // any panic raised by the library counts as a rejection; it is spurious when every
                // distinct key fits (C16, and C03 when a present key arrived again on the full map)
                cx.bump(S::lib_panics);
                if !liar {
                    let owner = if lying { PS::NONE } else if repeat_after_full || overflow_at.is_some() { p16.and(Prop::C03) } else { p16 };
                    let pn = p.name();
                    cx.chk(owner, overflow_at.is_some(), "spurious-overflow", || format!("{} panicked ({pn}) although only {} distinct keys were supplied to a container of {N}", names[sub], want.len()));
                }
            }
            Err(p) => fault |= unexpected(cx, liar, p16, &p),
        }
        self.note_fault(fault, true);
        self.cur_target = 1;
        self.after(p16, p16.and(Prop::C12));
    }
}
