//! `maphist`: interpreter of Map operation histories against a reference dictionary, with
//! standing invariants (C05), ledger (C02), canaries (C03/C17), address/alloc oracles (C06).

use mmv_base::case::{scale, Case, Prop, PS};
use mmv_base::ctx::{Ctx, S};
use mmv_base::kinds::{Kind, NOID};
use mmv_base::tl::{self, Caged, Pk};
use micromap::Map;
use std::collections::BTreeMap;

mod basic;
mod entry;
mod iters;
mod misc;
pub mod nankeys;
pub mod slices;
pub mod wide;

pub type M<KD, const N: usize> = Map<<KD as Kind>::K, <KD as Kind>::V, N>;

#[derive(Clone, Copy, PartialEq, Eq, Debug)]
pub struct Ent {
    pub kid: u32,
    pub vid: u32,
    pub val: u32,
}
pub type Model = BTreeMap<u8, Ent>;

#[derive(Clone, Copy, Debug)]
pub struct Obs {
    pub raw: u8,
    pub kid: u32,
    pub vid: u32,
    pub val: u32,
    pub ka: usize,
    pub va: usize,
    pub live: bool,
}

pub struct Slot<KD: Kind, const N: usize> {
    pub c: Box<Caged<M<KD, N>>>,
    pub model: Model,
    /// raw keys in iteration order as of the last observation
    pub order: Vec<u8>,
    /// a swap-removal happened since the slot was last empty
    pub swapped: bool,
    pub drained_at_step: Option<usize>,
}

impl<KD: Kind, const N: usize> Slot<KD, N> {
    pub fn new() -> Self {
        Slot { c: Box::new(Caged::new(Map::new())), model: Model::new(), order: Vec::new(), swapped: false, drained_at_step: None }
    }
}

pub const P_ALL: PS = PS(0xFFFF_FFFE);
pub const P_WELL: PS = PS::of(Prop::C05).and(Prop::C04).and(Prop::C17).and(Prop::C03).and(Prop::C18);
pub const P_LEDGER: PS = PS::of(Prop::C02).and(Prop::C04).and(Prop::C17).and(Prop::C03).and(Prop::C18).and(Prop::C15);
pub const P_CANARY: PS = PS::of(Prop::C03).and(Prop::C17).and(Prop::C18).and(Prop::C04);
pub const P_ADDR: PS = PS::of(Prop::C06);
pub const P_ALLOC: PS = PS::of(Prop::C06);
pub const P01: PS = PS::of(Prop::C01);
pub const P12: PS = PS::of(Prop::C12);

// op codes
pub const OP_INSERT: usize = 0;
pub const OP_INSERT_KV: usize = 1;
pub const OP_CHECKED: usize = 2;
pub const OP_GET: usize = 3;
pub const OP_GET_MUT: usize = 4;
pub const OP_GET_KV: usize = 5;
pub const OP_CONTAINS: usize = 6;
pub const OP_INDEX: usize = 7;
pub const OP_INDEX_MUT: usize = 8;
pub const OP_REMOVE: usize = 9;
pub const OP_REMOVE_ENTRY: usize = 10;
pub const OP_RETAIN: usize = 11;
pub const OP_CLEAR: usize = 12;
pub const OP_DRAIN: usize = 13;
pub const OP_WALK: usize = 14;
pub const OP_CONSUME: usize = 15;
pub const OP_ENTRY: usize = 16;
pub const OP_CLONE: usize = 17;
pub const OP_INSERT_UNCHECKED: usize = 18;
pub const OP_DISJOINT: usize = 19;
pub const OP_DISJOINT_SWEEP: usize = 20;
pub const OP_OVERFLOW_SWEEP: usize = 21;
pub const OP_FMT: usize = 22;
pub const OP_EQ: usize = 23;
pub const OP_CAP: usize = 24;
pub const OP_FROM_ITER: usize = 25;
pub const NOPS: usize = 26;

pub const OP_NAMES: [&str; NOPS] = [
    "insert", "insert_key_value", "checked_insert", "get", "get_mut", "get_key_value", "contains_key", "index", "index_mut",
    "remove", "remove_entry", "retain", "clear", "drain", "walk", "consume", "entry", "clone", "insert_unchecked", "get_disjoint_mut",
    "disjoint_sweep", "overflow_sweep", "fmt", "eq", "capacity", "from_iter",
];

/// Op weights per armed property. Index = op code. Op 0 (insert) is the shrink target.
pub fn weights(p: Prop) -> [u8; NOPS] {
    //                 ins kv  chk get gmu gkv con idx imu rem ren ret clr drn wlk cns ent cln unc dis dsw ovf fmt eq  cap fri
    match p {
        Prop::C01 => [12, 6, 6, 3, 3, 2, 2, 2, 2, 9, 5, 4, 1, 2, 1, 0, 0, 1, 0, 0, 0, 0, 0, 0, 0, 0],
        Prop::C02 => [10, 5, 5, 1, 1, 1, 0, 0, 1, 6, 4, 3, 1, 6, 1, 8, 4, 4, 4, 1, 0, 0, 0, 0, 0, 3],
        Prop::C03 => [14, 4, 4, 0, 0, 0, 0, 0, 0, 5, 2, 2, 0, 1, 0, 0, 2, 0, 0, 0, 0, 12, 0, 0, 2, 3],
        Prop::C04 => [10, 4, 4, 1, 1, 1, 1, 1, 1, 5, 3, 5, 3, 4, 1, 4, 6, 6, 3, 2, 0, 0, 0, 2, 0, 4],
        Prop::C05 => [10, 5, 5, 1, 2, 0, 0, 2, 2, 6, 4, 4, 1, 2, 3, 3, 8, 2, 3, 3, 0, 0, 0, 0, 1, 5],
        Prop::C06 => [10, 4, 4, 3, 3, 3, 2, 1, 1, 5, 3, 3, 1, 3, 6, 3, 6, 3, 0, 3, 0, 0, 4, 3, 1, 3],
        Prop::C09 => [12, 3, 3, 2, 2, 1, 1, 1, 1, 9, 4, 3, 0, 1, 16, 0, 3, 1, 0, 3, 0, 0, 0, 0, 0, 0],
        Prop::C10 => [14, 3, 3, 1, 0, 0, 0, 0, 0, 7, 3, 2, 0, 9, 1, 9, 1, 2, 0, 0, 0, 0, 0, 0, 0, 0],
        Prop::C11 => [10, 3, 3, 1, 0, 0, 0, 0, 0, 7, 3, 2, 0, 1, 0, 0, 24, 1, 0, 0, 0, 0, 0, 0, 0, 0],
        Prop::C12 => [14, 10, 10, 1, 0, 3, 0, 0, 0, 5, 4, 1, 0, 1, 3, 3, 10, 1, 6, 0, 0, 0, 0, 0, 0, 4],
        Prop::C13 => [12, 3, 3, 0, 1, 0, 0, 0, 0, 7, 3, 2, 0, 0, 0, 0, 1, 0, 0, 16, 3, 0, 0, 0, 0, 0],
        //                 ins kv  chk get gmu gkv con idx imu rem ren ret clr drn wlk cns ent cln unc dis dsw ovf fmt eq  cap fri
        Prop::C14 => [10, 3, 3, 0, 3, 0, 0, 0, 1, 7, 3, 2, 0, 1, 0, 0, 1, 8, 0, 0, 0, 0, 0, 14, 0, 3],
        Prop::C15 => [10, 4, 3, 2, 2, 1, 0, 0, 1, 6, 3, 3, 1, 2, 1, 2, 3, 12, 0, 0, 0, 0, 0, 3, 0, 0],
        Prop::C16 => [6, 2, 2, 1, 0, 1, 0, 0, 0, 3, 1, 1, 0, 0, 0, 0, 0, 0, 0, 0, 0, 0, 0, 0, 0, 22],
        Prop::C17 => [10, 4, 4, 2, 2, 2, 2, 2, 2, 6, 4, 4, 1, 2, 2, 2, 8, 2, 0, 8, 0, 0, 0, 3, 0, 3],
        Prop::C18 => [16, 3, 3, 1, 1, 0, 0, 0, 0, 7, 3, 2, 1, 1, 0, 0, 2, 0, 0, 6, 0, 0, 0, 0, 0, 0],
        Prop::C19 => [12, 3, 3, 0, 0, 0, 0, 0, 0, 7, 3, 2, 0, 4, 8, 6, 1, 1, 0, 0, 0, 0, 10, 0, 0, 0],
        _ => [12, 6, 6, 3, 3, 2, 2, 2, 2, 9, 5, 4, 1, 2, 1, 1, 2, 1, 0, 0, 0, 0, 0, 0, 0, 0],
    }
}

pub fn pick(w: &[u8; NOPS], code: u8) -> usize {
    let total: usize = w.iter().map(|x| *x as usize).sum();
    let t = (code as usize * total) >> 8;
    let mut acc = 0usize;
    for (i, x) in w.iter().enumerate() {
        acc += *x as usize;
        if t < acc {
            return i;
        }
    }
    0
}

pub struct MapEng<'c, KD: Kind, const N: usize> {
    pub cx: &'c mut Ctx,
    pub univ: u8,
    pub slots: [Option<Slot<KD, N>>; 2],
    pub liar: bool,
    pub unchecked_liar: bool,
    pub lockstep: bool,
    /// an injected panic was caught in the current op; models must be re-synchronised
    pub faulted: bool,
    pub ever_faulted: bool,
    pub last_ret: [u64; 2],
    pub lib_panicked: bool,
    pub lied_before: u64,
    pub cloned_at: Option<usize>,
    pub mutated_clone_side: Option<usize>,
    pub groups: u8,
    pub dup_paths: u32,
    /// slot the current op works on (2 = both); the other slot's state is owned by C15
    pub cur_target: usize,
    /// a container is known to be broken (len > capacity, iteration panics): never drop it
    pub poisoned: bool,
    /// a container is malformed (duplicate keys, len disagrees with iteration, dead element) and
    /// the armed property does not own that: the rest of the case is discarded
    pub abandon: bool,
    /// an iterator / drain was forgotten in the op in flight: what it held may have leaked
    pub may_leak: bool,
    /// the current op exercised an overflow / capacity path (C03 scope)
    pub op_overflow: bool,
    pub ever_overflow: bool,
    /// the current op went through an unsafe fast path (C18 scope)
    pub op_unchecked: bool,
    /// the op in flight only called `&self` methods (get, get_key_value, contains_key, index)
    pub op_readonly: bool,
    /// C09: the models as they were when the op in flight started, for ops that can leave the
    /// contents as they are although they take `&mut self` (get_mut without a write, entry of a
    /// present key, removal of an absent key, a retain that keeps everything, ...)
    pub quiet0: Option<[Option<Model>; 2]>,
    /// ledger violations recorded before the op in flight started
    pub viol0: usize,
    pub ever_unchecked: bool,
    pub ever_cloned: bool,
}

#[inline]
pub fn addr<T>(r: &T) -> usize {
    tl::addr_of(r)
}

impl<'c, KD: Kind, const N: usize> MapEng<'c, KD, N> {
    pub fn new(cx: &'c mut Ctx, case: &Case) -> Self {
        let mut univ = case.univ.max(1).min(if N > 17 { 96 } else { 24 });
        if univ > KD::MAX_UNIV {
            univ = KD::MAX_UNIV;
        }
        // C18, a quarter of the tracked cases: no lockstep twin; instead every plain insert into a
        // map that is not full goes through insert_unchecked while the key type's == misbehaves
        // (the contract "not full" holds whatever == says, and within it the unchecked path
        // upholds "every other guarantee" - among them C17's memory safety under such keys)
        let unchecked_liar = unchecked_liar_case(case) && KD::TRACKED;
        let liar = (case.prop == Prop::C17 || unchecked_liar) && KD::TRACKED;
        let lockstep = case.prop == Prop::C18 && !unchecked_liar;
        let mut slots = [Some(Slot::new()), None];
        if lockstep {
            slots[1] = Some(Slot::new());
        }
        MapEng {
            cx,
            univ,
            slots,
            liar,
            lockstep,
            unchecked_liar,
            faulted: false,
            ever_faulted: false,
            last_ret: [0; 2],
            lib_panicked: false,
            lied_before: 0,
            cloned_at: None,
            mutated_clone_side: None,
            groups: 0,
            dup_paths: 0,
            cur_target: 0,
            poisoned: false,
            abandon: false,
            may_leak: false,
            op_overflow: false,
            ever_overflow: false,
            op_unchecked: false,
            op_readonly: false,
            quiet0: None,
            viol0: 0,
            ever_unchecked: false,
            ever_cloned: false,
        }
    }

    #[inline]
    pub fn key_of(&self, a: u8) -> u8 {
        scale(a, self.univ as usize) as u8
    }
    #[inline]
    pub fn newval(&self, b: u8) -> u32 {
        KD::vnorm((((self.cx.step as u32 + 1) & 0xFFFF) << 8) | b as u32)
    }

    /// Library call with the C06 allocation oracle attached.
    #[inline]
    pub fn lib<R>(cx: &mut Ctx, f: impl FnOnce() -> R) -> Result<R, Pk> {
        let r = tl::lib(f);
        if KD::NOALLOC && r.is_ok() {
            cx.bump(S::alloc_checks);
            let n = tl::last_allocs();
            cx.chk(P_ALLOC, n == 0, "alloc", || format!("{n} allocator request(s) during a non-panicking call"));
        }
        r
    }

    /// Classify an `Err` from a library call that the model did not expect to panic.
    pub fn unexpected(&mut self, owners: PS, p: &Pk) {
        match p {
            Pk::Injected => {
                self.faulted = true;
                self.ever_faulted = true;
            }
            _ => {
                if self.liar {
                    // wrong answers and panics are allowed under a lying Eq
                    self.lib_panicked = true;
                    return;
                }
                let n = p.name();
                self.cx.chk(owners, false, "unexpected-panic", || format!("library call panicked ({n}) where the model expects a normal return"));
                self.lib_panicked = true;
            }
        }
    }

    pub fn observe(c: &Caged<M<KD, N>>) -> Result<Vec<Obs>, Pk> {
        tl::outside(|| {
            std::panic::catch_unwind(std::panic::AssertUnwindSafe(|| {
                let mut v = Vec::with_capacity(N + 1);
                for (k, val) in c.m.iter() {
                    v.push(Obs {
                        raw: KD::kraw(k),
                        kid: KD::kid(k),
                        vid: KD::vid(val),
                        val: KD::vval(val),
                        ka: addr(k),
                        va: addr(val),
                        live: KD::klive(k) && KD::vlive(val),
                    });
                    if v.len() > N + 4 {
                        break;
                    }
                }
                v
            }))
            .map_err(|_| Pk::Other("iteration panicked".into()))
        })
    }

    /// Standing invariants + model comparison after every op.
    /// `state`: owners of (key -> value, value identity) agreement with the model;
    /// `ident`: owners of stored-key identity agreement.
    pub fn after(&mut self, state: PS, ident: PS) {
        let liar = self.liar;
        let faulted = self.faulted;
        let univ = self.univ;
        let target = self.cur_target;
        let (state0, ident0) = (state, ident);
        // Scope of the standing invariants: a property only owns them in ops (or cases) that its
        // statement is about, so that e.g. a leak in drain() is not reported as a C03 violation.
        let mut elig = PS::of(Prop::C02).and(Prop::C05);
        if self.ever_faulted {
            elig = elig.and(Prop::C04);
        }
        if self.op_overflow {
            elig = elig.and(Prop::C03);
            self.ever_overflow = true;
        }
        if self.op_unchecked {
            elig = elig.and(Prop::C18);
            self.ever_unchecked = true;
        }
        if self.cloned_at.is_some() || self.cx.cur_op == "clone" {
            elig = elig.and(Prop::C15);
            self.ever_cloned = true;
        }
        if liar && tl::liar_lies() > 0 {
            elig = elig.and(Prop::C17);
        }
        let (p_well, p_ledger, p_canary) = (P_WELL.inter(elig), P_LEDGER.inter(elig), P_CANARY.inter(elig));
        let p_all = p_well.union(p_ledger).union(state0);
        let mut p_leak = PS::of(Prop::C02).and(Prop::C17).and(Prop::C03).and(Prop::C18).and(Prop::C15).inter(elig);
        if self.cx.cur_op == "entry" {
            // "the same results and effects as the direct map operations": a direct remove / insert
            // destroys what it takes out, so a key or value lost by an entry method is C11's too
            p_leak = p_leak.and(Prop::C11);
        }
        let mut stored: Vec<u32> = Vec::new();
        let mut stored_n: i64 = 0;
        let mut malformed = false;
        for w in 0..2 {
            // the slot the op did not address must be untouched: independence of clones (C15)
            let (state, ident) = if target == 2 || target == w { (state0, ident0) } else { (PS::of(Prop::C15), PS::of(Prop::C15)) };
            let Some(slot) = self.slots[w].as_mut() else { continue };
            let cx = &mut *self.cx;
            let obs = match Self::observe(&slot.c) {
                Ok(o) => o,
                Err(_) => {
                    cx.chk(p_all, false, "broken-container", || "iterating the container panicked".into());
                    self.poisoned = true;
                    self.abandon = true;
                    return;
                }
            };
            stored_n += obs.len() as i64;
            let len = slot.c.m.len();
            let cap = slot.c.m.capacity();
            if obs.len() != len || len > cap || obs.iter().any(|o| !o.live) {
                malformed = true;
            }
            cx.chk(p_well, obs.len() == len, "len-vs-iter", || format!("len()={} but iteration yields {} entries", len, obs.len()));
            cx.chk(p_well, slot.c.m.is_empty() == (len == 0), "is_empty", || format!("is_empty()={} with len()={}", slot.c.m.is_empty(), len));
            cx.chk(p_well, len <= cap, "len-vs-capacity", || format!("len()={len} exceeds capacity()={cap}"));
            if len > cap || !slot.c.intact() {
                self.poisoned = true;
            }
            cx.chk(PS::of(Prop::C03), cap == N, "capacity", || format!("capacity()={cap} but N={N}"));
            cx.chk(p_canary, slot.c.intact(), "canary", || "bytes outside the container were overwritten".into());
            for o in &obs {
                cx.chk(p_ledger.and(Prop::C05), o.live, "dead-yield", || format!("iteration yields a dead or uninitialised element (key {})", o.raw));
                cx.bump(S::addr_checks);
                let inside = slot.c.contains(o.ka, std::mem::size_of::<KD::K>()) && slot.c.contains(o.va, std::mem::size_of::<KD::V>());
                cx.chk(P_ADDR, inside, "addr", || "iter() yields a reference outside the container value".into());
            }
            if KD::TRACKED {
                // no object twice
                for (i, a) in obs.iter().enumerate() {
                    for b in &obs[i + 1..] {
                        cx.chk(p_ledger, a.kid != b.kid && a.vid != b.vid, "object-twice", || format!("one object is stored in two slots (key {})", a.raw));
                    }
                }
                for o in &obs {
                    stored.push(o.kid);
                    stored.push(o.vid);
                }
            }
            if !liar {
                // key uniqueness and lookup agreement (C05)
                for (i, a) in obs.iter().enumerate() {
                    for b in &obs[i + 1..] {
                        if a.raw == b.raw {
                            malformed = true;
                        }
                        cx.chk(p_well, a.raw != b.raw, "duplicate-key", || format!("key {} is yielded twice by iteration", a.raw));
                    }
                }
                for o in &obs {
                    let qo = KD::qo(o.raw);
                    let got = tl::quiet(|| slot.c.m.get(KD::q(&qo)).map(|v| addr(v)));
                    cx.chk(p_well, got == Ok(Some(o.va)), "yield-vs-get", || format!("get({}) does not return the value yielded with that key: {:?}", o.raw, got.as_ref().map(|x| x.is_some())));
                    let got = tl::quiet(|| slot.c.m.get_key_value(KD::q(&qo)).map(|(k, _)| addr(k)));
                    cx.chk(p_well, got == Ok(Some(o.ka)), "yield-vs-get_key_value", || format!("get_key_value({}) does not return the yielded key", o.raw));
                }
            }
            // "iterating twice without an intervening mutation yields the same order": a call that
            // takes `&self` is no mutation, and neither is a call that takes `&mut self` and
            // leaves every key, every value and every stored object as it was (a get_mut through
            // which nothing is written, entry() of a present key that is only read, the removal
            // of an absent key, a retain that keeps everything and rewrites nothing, ...)
            let untouched = self.quiet0.as_ref().is_some_and(|q| q[w].as_ref() == Some(&slot.model)) && !faulted;
            if (self.op_readonly || untouched) && !liar {
                if untouched {
                    cx.bump(S::order_checks_across_quiet_mut_calls);
                }
                let same = slot.order.len() == obs.len() && slot.order.iter().zip(obs.iter()).all(|(a, o)| *a == o.raw);
                let what = if self.op_readonly { "a read-only lookup" } else { "a call that left every entry as it was" };
                cx.chk(PS::of(Prop::C09), same, "order-stable", || format!("iteration order changed across {what}: {:?} before, {:?} after", slot.order, obs.iter().map(|o| o.raw).collect::<Vec<_>>()));
            }
            slot.order.clear();
            slot.order.extend(obs.iter().map(|o| o.raw));
            if obs.is_empty() {
                slot.swapped = false;
            }
            if len == N {
                cx.bump(S::steps_at_full);
            }
            if liar {
                continue;
            }
            // model comparison
            let mut same_state = obs.len() == slot.model.len();
            let mut same_ident = true;
            let mut why = String::new();
            for o in &obs {
                match slot.model.get(&o.raw) {
                    Some(e) => {
                        if e.val != o.val || (KD::IDENT && e.vid != o.vid) {
                            same_state = false;
                            why = format!("key {}: stored value {} (object #{}) but the model has {} (object #{})", o.raw, o.val, o.vid, e.val, e.vid);
                        }
                        if KD::IDENT && e.kid != o.kid {
                            same_ident = false;
                        }
                    }
                    None => {
                        same_state = false;
                        why = format!("key {} is stored but absent from the model", o.raw);
                    }
                }
            }
            if same_state && obs.len() != slot.model.len() {
                same_state = false;
            }
            if !same_state && why.is_empty() {
                why = format!("container holds {:?}, model holds {:?}", obs.iter().map(|o| o.raw).collect::<Vec<_>>(), slot.model.keys().collect::<Vec<_>>());
            }
            if faulted {
                // after an injected panic any partial effect is accepted
                same_state = false;
                same_ident = false;
            } else {
                cx.chk(state, same_state, "state-vs-model", || format!("map {w}: {why}"));
                cx.chk(ident, same_ident, "stored-key-identity", || format!("map {w}: the stored key object is not the one the model expects"));
            }
            if !same_state || !same_ident {
                if !faulted {
                    cx.bump(S::resyncs);
                }
                slot.model.clear();
                for o in &obs {
                    slot.model.insert(o.raw, Ent { kid: o.kid, vid: o.vid, val: o.val });
                }
            }
            // lookup sweep over the universe, both key forms
            if state.has(cx.armed) && !faulted {
                for u in 0..univ {
                    let want = slot.model.get(&u).map(|e| e.val);
                    let qo = KD::qo_alt(u, u as usize + cx.step);
                    let got = tl::quiet(|| slot.c.m.get(KD::q(&qo)).map(|v| KD::vval(v)));
                    cx.chk(state, got == Ok(want), "lookup-borrowed", || format!("map {w}: get({u}) by borrowed form gives {got:?}, model {want:?}"));
                    let key = KD::key(u);
                    let got = tl::quiet(|| slot.c.m.get::<KD::K>(&key).map(|v| KD::vval(v)));
                    cx.chk(state, got == Ok(want), "lookup-key", || format!("map {w}: get({u}) by key gives {got:?}, model {want:?}"));
                    let got = tl::quiet(|| slot.c.m.contains_key::<KD::K>(&key));
                    cx.chk(state, got == Ok(want.is_some()), "contains-key", || format!("map {w}: contains_key({u}) gives {got:?}"));
                    drop(key);
                }
            }
        }
        if KD::TRACKED {
            let cx = &mut *self.cx;
            if let Some(v) = tl::ledger_first_violation() {
                // "the same results and effects as the direct map operations": the direct operation
                // destroys what it takes out or replaces exactly once and touches no dead slot, so
                // an entry method in which the first such violation of the case happens is C11's
                // as well (without injected panics; what happens around those is C04's)
                let own = if cx.cur_op == "entry" && !self.ever_faulted && self.viol0 == 0 { p_ledger.and(Prop::C11) } else { p_ledger };
                cx.chk(own, false, "ledger", || v);
            }
            if faulted {
                let n = tl::ledger_excuse_unstored(&stored);
                cx.add(S::fault_leaks_excused, n as u64);
            } else {
                let live = tl::ledger_live_strict();
                stored.sort_unstable();
                let mut ok = true;
                let mut msg = String::new();
                for s in &live {
                    if stored.binary_search(s).is_err() {
                        ok = false;
                        msg = format!("object #{s} is alive but neither stored nor returned (leaked)");
                        break;
                    }
                }
                cx.chk(p_leak, ok, "leak", || msg);
            }
        }
        if tl::take_may_leak() {
            self.may_leak = true;
        }
        if KD::COUNTS_LIVE {
            // zero-sized payload with drop glue: ownership by counting (created - destroyed)
            let cx = &mut *self.cx;
            let (lk, lv) = KD::live();
            let (sk, sv) = (stored_n, if true { stored_n } else { 0 });
            cx.chk(p_ledger, lk >= sk && lv >= sv, "count-double-drop", || format!("{sk} keys / {sv} values are stored but only {lk} / {lv} objects are alive: something was destroyed twice (or a dead slot is counted as live)"));
            if faulted || self.may_leak {
                KD::live_forgive(sk, sv);
            } else {
                cx.chk(p_leak, lk <= sk && lv <= sv, "count-leak", || format!("{lk} keys / {lv} values are alive but only {sk} / {sv} are stored: something was never destroyed"));
            }
            self.may_leak = false;
        }
        {
            let mis = tl::take_misaligned();
            self.cx.chk(P_ADDR.and(Prop::C02).and(Prop::C17), mis == 0, "alignment", || format!("{mis} reference(s) handed out by the library are not aligned for their type"));
        }
        if malformed && !liar && !self.cx.failed() {
            // broken container, and the armed property does not own that for this operation:
            // nothing the model says afterwards is about this property any more
            self.abandon = true;
            self.poisoned = true;
        }
        self.faulted = false;
        self.op_overflow = false;
        self.op_unchecked = false;
    }

    pub fn step(&mut self, raw: [u8; 4]) {
        let w = weights(self.cx.armed);
        let opi = pick(&w, raw[0]);
        self.cx.bump(S::ops);
        if self.lockstep {
            self.exec(opi, raw, 0, false);
            if !self.cx.failed() {
                self.exec(opi, raw, 1, true);
                self.compare_lockstep();
            }
        } else {
            let which = if raw[3] & 0x80 != 0 && self.slots[1].is_some() { 1 } else { 0 };
            let unchecked = self.unchecked_liar;
            self.exec(opi, raw, which, unchecked);
        }
    }

    fn exec(&mut self, opi: usize, raw: [u8; 4], w: usize, use_unchecked: bool) {
        self.cx.cur_op = OP_NAMES[opi];
        self.cx.mark_op();
        self.cur_target = w;
        self.op_overflow = false;
        self.op_unchecked = false;
        self.op_readonly = matches!(opi, OP_GET | OP_GET_KV | OP_CONTAINS | OP_INDEX);
        self.viol0 = tl::ledger_violation_count();
        // (only for payloads whose values show every write - a zero-sized value looks the same
        // after an overwrite - and never for calls that are insertions by intent)
        self.quiet0 = if self.cx.armed == Prop::C09 && KD::vnorm(1) != 0 && matches!(opi, OP_GET_MUT | OP_INDEX_MUT | OP_REMOVE | OP_REMOVE_ENTRY | OP_RETAIN | OP_WALK | OP_ENTRY | OP_DISJOINT | OP_FMT | OP_EQ | OP_CAP) {
            Some([self.slots[0].as_ref().map(|s| s.model.clone()), self.slots[1].as_ref().map(|s| s.model.clone())])
        } else {
            None
        };
        let (a, b, c) = (raw[1], raw[2], raw[3] & 0x7f);
        let lied0 = tl::liar_lies();
        match opi {
            OP_INSERT | OP_INSERT_KV | OP_CHECKED | OP_INSERT_UNCHECKED => {
                let variant = if opi == OP_INSERT && use_unchecked { OP_INSERT_UNCHECKED } else { opi };
                self.op_insert(w, variant, a, b)
            }
            OP_GET | OP_GET_MUT | OP_GET_KV | OP_CONTAINS | OP_INDEX | OP_INDEX_MUT => self.op_lookup(w, opi, a, b, c),
            OP_REMOVE | OP_REMOVE_ENTRY => self.op_remove(w, opi, a, c),
            OP_RETAIN => self.op_retain(w, a, b, c),
            OP_CLEAR => self.op_clear(w),
            OP_DRAIN => self.op_drain(w, a, b, c),
            OP_WALK => self.op_walk(w, a, b, c),
            OP_CONSUME => self.op_consume(w, a, b, c),
            OP_ENTRY => self.op_entry(w, a, b, c),
            OP_CLONE => self.op_clone(a, b),
            OP_DISJOINT => self.op_disjoint(w, a, b, c, use_unchecked && !self.liar),
            OP_DISJOINT_SWEEP => self.op_disjoint_sweep(w, a),
            OP_OVERFLOW_SWEEP => self.op_overflow_sweep(w, a, b),
            OP_FMT => self.op_fmt(w, a, b),
            OP_EQ => self.op_eq(a),
            OP_CAP => self.op_cap(w, a),
            OP_FROM_ITER => self.op_from_iter(a, b, c),
            _ => {}
        }
        if self.liar && tl::liar_lies() > lied0 {
            self.cx.add(S::liar_lies, tl::liar_lies() - lied0);
        }
    }

    fn compare_lockstep(&mut self) {
        let (Some(a), Some(b)) = (self.slots[0].as_ref(), self.slots[1].as_ref()) else { return };
        let oa = Self::observe(&a.c).unwrap_or_default();
        let ob = Self::observe(&b.c).unwrap_or_default();
        let ma: BTreeMap<u8, u32> = oa.iter().map(|o| (o.raw, o.val)).collect();
        let mb: BTreeMap<u8, u32> = ob.iter().map(|o| (o.raw, o.val)).collect();
        let p18 = PS::of(Prop::C18);
        self.cx.chk(p18, ma == mb, "unchecked-vs-safe-state", || format!("safe map holds {ma:?}, map driven through the unchecked paths holds {mb:?}"));
        let (ra, rb) = (self.last_ret[0], self.last_ret[1]);
        self.cx.chk(p18, ra == rb, "unchecked-vs-safe-return", || format!("return value summaries differ: safe {ra:#x}, unchecked {rb:#x}"));
    }

    /// Insert `target` distinct keys (a generated permutation of the universe) straight through
    /// `insert`, then run the standing checks once.
    pub fn prefill(&mut self, sel: u8, mode: u8) {
        let u = self.univ as usize;
        let target = match sel % 4 {
            0 => N,
            1 => N - 1,
            2 => N.saturating_sub(2 + (mode as usize % 6)),
            _ => scale(mode, N + 1),
        }
        .min(u);
        let gcd = |mut a: usize, mut b: usize| {
            while b != 0 {
                let t = a % b;
                a = b;
                b = t;
            }
            a
        };
        let mut stride = 1 + (mode as usize % 11);
        while gcd(stride, u) != 1 {
            stride += 1;
        }
        let off = (mode as usize >> 2) % u;
        self.cx.cur_op = "insert";
        self.cur_target = 0;
        {
            let slot = self.slots[0].as_mut().unwrap();
            for i in 0..target {
                let k = ((i * stride + off) % u) as u8;
                let v = KD::vnorm(0x00F0_0000 | i as u32);
                let key = KD::key(k);
                let kid = KD::kid(&key);
                let val = KD::val(v);
                let vid = KD::vid(&val);
                let m = &mut slot.c.m;
                let r = tl::lib(move || m.insert(key, val).is_none());
                if r == Ok(true) {
                    slot.model.insert(k, Ent { kid, vid, val: v });
                } else if r == Err(Pk::Injected) {
                    self.faulted = true;
                    self.ever_faulted = true;
                    break;
                }
            }
            if slot.model.len() == N {
                self.cx.bump(S::reached_full);
            }
            self.cx.add(S::prefilled, slot.model.len() as u64);
        }
        self.after(P01, P12);
        for w in 1..2 {
            if self.lockstep {
                // the lockstep twin gets the same contents
                let keys: Vec<(u8, u32)> = self.slots[0].as_ref().unwrap().order.iter().map(|k| (*k, self.slots[0].as_ref().unwrap().model[k].val)).collect();
                for (k, v) in keys {
                    self.op_insert_k(w, OP_INSERT, k, v);
                }
            }
        }
        self.last_ret = [0; 2];
    }

    /// Drop everything and settle the ledger.
    pub fn finish(mut self) {
        self.cx.cur_op = "final-drop";
        for w in (0..2).rev() {
            if let Some(s) = self.slots[w].take() {
                if self.poisoned {
                    std::mem::forget(s);
                    continue;
                }
                let intact_before = s.c.intact();
                let model = s.model;
                let c = s.c;
                let r = tl::lib(move || drop(c));
                let _ = (intact_before, model);
                if let Err(p) = r {
                    if p == Pk::Injected {
                        self.ever_faulted = true;
                        let n = tl::ledger_excuse_unstored(&[]);
                        self.cx.add(S::fault_leaks_excused, n as u64);
                    } else if !self.liar {
                        let n = p.name();
                        self.cx.chk(P_WELL.union(P_LEDGER), false, "drop-panic", || format!("dropping the container panicked: {n}"));
                    }
                }
            }
        }
        if KD::TRACKED {
            let mut elig = PS::of(Prop::C02).and(Prop::C05);
            if self.ever_faulted {
                elig = elig.and(Prop::C04);
            }
            if self.ever_overflow {
                elig = elig.and(Prop::C03);
            }
            if self.ever_unchecked {
                elig = elig.and(Prop::C18);
            }
            if self.ever_cloned {
                elig = elig.and(Prop::C15);
            }
            if self.liar && tl::liar_lies() > 0 {
                elig = elig.and(Prop::C17);
            }
            if let Some(v) = tl::ledger_first_violation() {
                self.cx.chk(P_LEDGER.inter(elig), false, "ledger", || v);
            }
            let left = tl::ledger_live_strict();
            self.cx.chk(PS::of(Prop::C02).and(Prop::C17).and(Prop::C03).and(Prop::C18).and(Prop::C15).inter(elig), left.is_empty(), "leak-at-end", || {
                format!("{} object(s) never destroyed, e.g. #{}", left.len(), left[0])
            });
        }
        if KD::COUNTS_LIVE && !self.poisoned {
            let mut elig = PS::of(Prop::C02).and(Prop::C05);
            if self.ever_faulted {
                elig = elig.and(Prop::C04);
            }
            if self.ever_overflow {
                elig = elig.and(Prop::C03);
            }
            if self.ever_cloned {
                elig = elig.and(Prop::C15);
            }
            let (lk, lv) = KD::live();
            self.cx.chk(P_LEDGER.inter(elig), lk >= 0 && lv >= 0, "count-double-drop", || format!("after everything was dropped the live counts are {lk} keys / {lv} values: something was destroyed twice"));
            if !self.ever_faulted && !self.may_leak {
                self.cx.chk(PS::of(Prop::C02).and(Prop::C03).and(Prop::C15).inter(elig), lk <= 0 && lv <= 0, "count-leak-at-end", || format!("{lk} key(s) / {lv} value(s) never destroyed"));
            }
        }
        if self.ever_faulted {
            self.cx.bump(S::fault_fired);
        }
        self.cx.add(S::dup_key_paths, self.dup_paths.count_ones() as u64);
        self.cx.add(S::alloc_groups, self.groups.count_ones() as u64);
    }
}

pub fn unchecked_liar_case(case: &Case) -> bool {
    case.prop == Prop::C18 && case.mode >= 192
}

/// Run one maphist case for a fixed kind and capacity.
pub fn run<KD: Kind, const N: usize>(case: &Case, cx: &mut Ctx) {
    tl::ledger_reset();
    KD::live_reset();
    let _ = tl::take_may_leak();
    cx.engine = "maphist";
    if case.prop == Prop::C17 || (unchecked_liar_case(case) && KD::TRACKED) {
        let bits: Vec<u8> = case.ops.iter().flat_map(|o| [o[2], o[3]]).collect();
        tl::liar_set(1 + case.mode % (tl::LIAR_MODES - 1), 2 + (case.mode >> 4), bits);
    } else {
        tl::liar_off();
    }
    if case.fuse >= 0 {
        // C04: in a quarter of the cases a second panic follows `gap` callbacks after the first
        tl::fuse_arm2(case.fuse as i64, if case.prop == Prop::C04 && case.mode & 3 == 3 { 1 + (case.mode >> 2) % 12 } else { 0 });
    } else {
        tl::fuse_arm(-1);
    }
    let mut e = MapEng::<KD, N>::new(cx, case);
    if N > 17 {
        // large capacities: a 40-op history cannot get near the 32- / 64-entry marks, so the
        // case starts from a generated fill level (full, nearly full, or anywhere)
        e.prefill(case.cap2, case.mode);
    }
    for (i, op) in case.ops.iter().enumerate() {
        e.cx.step = i;
        if let Err(payload) = std::panic::catch_unwind(std::panic::AssertUnwindSafe(|| e.step(*op))) {
            // containers may be half-observed: never touch or drop them again
            e.poisoned = true;
            let liar = e.liar;
            mmv_base::probe::escaped_panic(e.cx, liar, false, payload);
            break;
        }
        if e.cx.failed() {
            break;
        }
        if e.abandon {
            e.cx.discard = true;
            e.cx.bump(S::discarded_setups);
            break;
        }
    }
    e.cx.step = case.ops.len();
    e.finish();
    tl::fuse_disarm();
    tl::liar_off();
    let _ = NOID;
}

/// Dispatch on (kind, capacity).
pub fn run_dyn(case: &Case, cx: &mut Ctx) {
    use mmv_base::kinds::{FatTag, Large, NoDrop, PathK, Plain, Str, Tagged, Tracked, ZstBoth, ZstDrop, ZstKey, ZstVal};
    let n = mmv_base::capacity_of(case);
    match case.kind % mmv_base::case::NKINDS {
        0 => mmv_base::by_cap!(run, Tracked, n, case, cx, [0, 1, 2, 3, 4, 6, 9, 17, 32, 33, 64, 70]),
        1 => mmv_base::by_cap!(run, Plain, n, case, cx, [0, 1, 2, 3, 4, 6, 9, 17, 32, 33, 64, 70]),
        2 => mmv_base::by_cap!(run, Str, n, case, cx, [0, 1, 2, 3, 4, 6]),
        3 => mmv_base::by_cap!(run, Large, n, case, cx, [0, 1, 2, 4]),
        4 => mmv_base::by_cap!(run, ZstKey, n, case, cx, [0, 1]),
        5 => mmv_base::by_cap!(run, ZstVal, n, case, cx, [0, 1, 3]),
        6 => mmv_base::by_cap!(run, NoDrop, n, case, cx, [0, 1, 2, 3, 4, 6]),
        7 => mmv_base::by_cap!(run, ZstBoth, n, case, cx, [0, 1, 2]),
        8 => mmv_base::by_cap!(run, Tagged, n, case, cx, [0, 1, 2, 3, 4, 6, 9]),
        10 => mmv_base::by_cap!(run, ZstDrop, n, case, cx, [0, 1, 2]),
        11 => mmv_base::by_cap!(run, FatTag, n, case, cx, [0, 1, 2, 3, 4, 6]),
        _ => mmv_base::by_cap!(run, PathK, n, case, cx, [0, 1, 2, 3, 4, 6]),
    }
}
