//! drain, borrowing walks (C09), consuming iterators (C10), iterator Debug (C19).

use super::basic::unexpected;
use super::*;
use mmv_base::fmtutil::{fmt_debug, split_top};
use mmv_base::probe::{check_multiset, check_ordered, probe, ProbeOut, PROBE_NAMES};

#[derive(Clone, Copy, Debug, PartialEq, Eq)]
pub struct Y {
    pub raw: i16,
    pub kid: u32,
    pub val: i64,
    pub vid: u32,
    pub ka: usize,
    pub va: usize,
}

pub const P09: PS = PS::of(Prop::C09);
pub const P10: PS = PS::of(Prop::C10);
pub const P19: PS = PS::of(Prop::C19);

fn yk<KD: Kind>(k: &KD::K) -> Y {
    Y { raw: KD::kraw(k) as i16, kid: KD::kid(k), val: -1, vid: NOID, ka: addr(k), va: 0 }
}
fn yv<KD: Kind>(v: &KD::V) -> Y {
    Y { raw: -1, kid: NOID, val: KD::vval(v) as i64, vid: KD::vid(v), ka: 0, va: addr(v) }
}
fn ykv<KD: Kind>(k: &KD::K, v: &KD::V) -> Y {
    Y { raw: KD::kraw(k) as i16, kid: KD::kid(k), val: KD::vval(v) as i64, vid: KD::vid(v), ka: addr(k), va: addr(v) }
}

/// expected `{:?}` rendering of one not-yet-yielded entry for the given projection
pub fn item_dbg<KD: Kind>(raw: u8, val: u32, proj: u8) -> String {
    match proj {
        0 => format!("({}, {})", KD::kdbg(raw), KD::vdbg(val)),
        1 => KD::kdbg(raw),
        _ => KD::vdbg(val),
    }
}

/// Compare the Debug output of a partially consumed iterator with the entries it has not yet
/// yielded (as a multiset).
pub fn check_iter_debug<KD: Kind>(cx: &mut Ctx, what: &str, out: &str, rest: &[(u8, u32)], proj: u8) {
    cx.bump(S::fmt_calls);
    let ok_shape = out.starts_with('[') && out.ends_with(']');
    let mut got: Vec<String> = if ok_shape { split_top(&out[1..out.len() - 1]) } else { vec![] };
    let mut want: Vec<String> = rest.iter().map(|(r, v)| item_dbg::<KD>(*r, *v, proj)).collect();
    got.sort();
    want.sort();
    cx.chk(P19, ok_shape && got == want, "iterator-debug", || format!("Debug of {what} prints {out} but the entries not yet yielded are {want:?}"));
}

impl<'c, KD: Kind, const N: usize> MapEng<'c, KD, N> {
    pub fn op_drain(&mut self, w: usize, _a: u8, b: u8, c: u8) {
        use mmv_base::tl::Pk;
        let mut fault = false;
        let liar = self.liar;
        let step = self.cx.step;
        {
            let Some(slot) = self.slots[w].as_mut() else { return };
            let cx = &mut *self.cx;
            let pre_obs = Self::observe(&slot.c).unwrap_or_default();
            let before = slot.model.clone();
            let n = if liar { pre_obs.len() } else { before.len() };
            let take = scale(b, n + 2);
            // 0 drop, 1 run to the end, 2 forget, 3.. = adaptor probe (nth/last/fold/count/skip) on the rest
            let end = (c as usize * (3 + mmv_base::probe::NPROBES)) >> 7;
            let pk = ((_a & 0x1f) as usize * (n + 2)) >> 5;
            cx.bump(S::drains);
            if take > 0 && take < n && end != 1 {
                cx.bump(S::partial_drains);
            }
            let mut yielded: Vec<Y> = Vec::with_capacity(n + 4);
            let mut hints: Vec<(usize, (usize, Option<usize>))> = Vec::with_capacity(n + 4);
            let m = &mut slot.c.m;
            // the drain lives in harness-owned storage while the first items are pulled and is
            // then moved elsewhere (old place overwritten): see `probe::Roving`
            let mut rv = mmv_base::probe::Roving::new(m.drain());
            let mut ended = false;
            for i in 0..take {
                let d = rv.get();
                hints.push(mmv_base::probe::hint_of(&d));
                match Self::lib(cx, || d.next()) {
                    Ok(Some((k, v))) => yielded.push(ykv::<KD>(&k, &v)),
                    Ok(None) => {
                        ended = true;
                        break;
                    }
                    Err(p) => {
                        fault |= unexpected(cx, liar, P10, &p);
                        break;
                    }
                }
                if i == 0 {
                    rv.relocate();
                    cx.bump(S::relocations);
                }
            }
            let mut d = rv.into_inner();
            if !liar && (cx.armed == Prop::C19 || cx.armed == Prop::C06) {
                let rest: Vec<(u8, u32)> = before.iter().filter(|(k, _)| !yielded.iter().any(|y| y.raw == **k as i16)).map(|(k, e)| (*k, e.val)).collect();
                if let Ok(out) = fmt_debug::<KD>(cx, &d, false) {
                    if take > 0 && take < n {
                        cx.bump(S::fmt_iter_partial);
                    }
                    check_iter_debug::<KD>(cx, "Drain", &out, &rest, 0);
                }
            }
            match end {
                1 => {
                    let mut guard = 0;
                    while !ended {
                        hints.push(mmv_base::probe::hint_of(&d));
                        match Self::lib(cx, || d.next()) {
                            Ok(Some((k, v))) => yielded.push(ykv::<KD>(&k, &v)),
                            Ok(None) => ended = true,
                            Err(p) => {
                                fault |= unexpected(cx, liar, P10, &p);
                                break;
                            }
                        }
                        guard += 1;
                        if guard > n + 4 {
                            cx.chk(P10, false, "overlong", || "drain yields more items than the map held".into());
                            break;
                        }
                    }
                    if ended {
                        for _ in 0..3 {
                            let none = mmv_base::probe::ended_none(&mut d);
                            cx.chk(P10, none, "not-fused", || "drain yielded an item after returning None".into());
                        }
                        {
                            // after the end the exact-size report is 0 (len(), size_hint()), not an underflowed cursor
                            let h = mmv_base::probe::hint_of(&d);
                            cx.chk(P10, h == (0, (0, Some(0))), "exact-len", || format!("after the end: len()={} size_hint={:?}", h.0, h.1));
                        }
                    }
                    if let Err(p) = Self::lib(cx, move || drop(d)) {
                        fault |= unexpected(cx, liar, P10, &p);
                    }
                }
                2 => {
                    cx.bump(S::forgets);
                    std::mem::forget(d);
                    tl::mark_may_leak();
                    if KD::TRACKED {
                        for o in &pre_obs {
                            if !yielded.iter().any(|y| y.kid == o.kid) {
                                tl::ledger_mark_may_leak(o.kid);
                            }
                            if !yielded.iter().any(|y| y.vid == o.vid) {
                                tl::ledger_mark_may_leak(o.vid);
                            }
                        }
                    }
                }
                0 => {
                    if let Err(p) = Self::lib(cx, move || drop(d)) {
                        fault |= unexpected(cx, liar, P10, &p);
                    }
                }
                _ => {
                    if ended || fault {
                        let _ = Self::lib(cx, move || drop(d));
                    } else {
                        let po = probe(cx, KD::NOALLOC, d, end - 3, pk, N, |(k, v): (KD::K, KD::V)| {
                            let y = ykv::<KD>(&k, &v);
                            (y.raw, y.kid, y.val, y.vid)
                        });
                        if po.panicked == Some(Pk::Injected) {
                            fault = true;
                        } else if !liar {
                            let rest: Vec<(i16, u32, i64, u32)> = before
                                .iter()
                                .filter(|(k, _)| !yielded.iter().any(|y| y.raw == **k as i16))
                                .map(|(k, e)| (*k as i16, if KD::IDENT { e.kid } else { NOID }, e.val as i64, if KD::IDENT { e.vid } else { NOID }))
                                .collect();
                            let r = check_multiset(&po, &rest, true);
                            cx.chk(P10, r.is_ok(), "adaptor", || format!("drain after {} of {n} items: {}", yielded.len(), r.clone().err().unwrap_or_default()));
                            cx.log(|| format!("drain probe {}({pk}) -> {:?} tail {:?} count {:?}", PROBE_NAMES[end - 3], po.got, po.tail, po.count));
                        }
                    }
                }
            }
            cx.log(|| format!("drain[{w}] take {take} end {end} of {n}: yielded {:?}", yielded.iter().map(|y| y.raw).collect::<Vec<_>>()));
            if !liar {
                for (i, h) in hints.iter().enumerate() {
                    let rem = n.saturating_sub(i);
                    cx.chk(P10, h.0 == rem && h.1 == (rem, Some(rem)), "exact-len", || format!("drain after {i} of {n} items: len()={} size_hint={:?}", h.0, h.1));
                }
                for (i, y) in yielded.iter().enumerate() {
                    let e = before.get(&(y.raw as u8));
                    let dup = yielded[..i].iter().any(|z| z.raw == y.raw);
                    cx.chk(P10, !dup, "repeat", || format!("drain yielded key {} twice", y.raw));
                    match e {
                        Some(e) => {
                            cx.chk(P10, e.val as i64 == y.val && (!KD::IDENT || e.vid == y.vid), "yield", || format!("drain yielded key {} with value {} but the map held {}", y.raw, y.val, e.val));
                            if KD::IDENT {
                                cx.chk(P12, e.kid == y.kid, "exposed-key-identity", || format!("drain yielded key object #{}, stored was #{}", y.kid, e.kid));
                            }
                        }
                        None => {
                            cx.chk(P10, false, "yield", || format!("drain yielded key {} which the map did not hold", y.raw));
                        }
                    }
                }
                if end == 1 && !fault {
                    cx.chk(P10, yielded.len() == n, "incomplete", || format!("drain run to the end yielded {} of {n} entries", yielded.len()));
                }
            }
            slot.model.clear();
            if end == 2 && !liar {
                // The drain was forgotten, its destructor never ran. What the statement promises
                // about the container then: nothing that was handed out is still stored, and
                // whatever is still stored is an entry that was not handed out (unchanged). How
                // many of the remaining entries stay is the implementation's business.
                let post = Self::observe(&slot.c).unwrap_or_default();
                let owners = P10.and(Prop::C01).and(Prop::C02);
                for o in &post {
                    let handed_out = yielded.iter().any(|y| y.raw == o.raw as i16);
                    cx.chk(owners, !handed_out, "forgotten-drain", || format!("key {} was yielded by the drain and is still stored in the map after the drain was forgotten", o.raw));
                    match before.get(&o.raw) {
                        Some(e) if !handed_out => {
                            cx.chk(owners, e.val == o.val && (!KD::IDENT || (e.kid == o.kid && e.vid == o.vid)), "forgotten-drain", || format!("key {} is stored with a different value or object after a forgotten drain", o.raw));
                            slot.model.insert(o.raw, *e);
                        }
                        Some(_) => {}
                        None => {
                            cx.chk(owners, false, "forgotten-drain", || format!("key {} is stored after a forgotten drain but the map did not hold it", o.raw));
                        }
                    }
                }
            }
            slot.drained_at_step = Some(step);
            cx.bump(S::mutations);
            self.groups |= 8;
        }
        self.note_fault(fault, true);
        self.note_clone_mutation(w);
        self.after(P10.and(Prop::C01), P12);
    }

    /// `Default` iterators: empty, exact length 0, None forever, `[]` under Debug.
    fn check_default_iters(cx: &mut Ctx) {
        use micromap::{IntoIter, IntoKeys, IntoValues, Iter, IterMut, Keys, Values, ValuesMut};
        macro_rules! empty {
            ($t:ty, $name:expr) => {{
                let r = tl::lib(|| {
                    let mut it: $t = Default::default();
                    let l0 = (it.len(), it.size_hint());
                    let n1 = it.next().is_none();
                    let n2 = it.next().is_none();
                    (l0, n1 && n2)
                });
                cx.chk(P09.and(Prop::C10), r == Ok(((0, (0, Some(0))), true)), "default-iterator", || format!("{}::default() is not an empty exact-size iterator: {r:?}", $name));
            }};
        }
        empty!(Iter<'static, KD::K, KD::V>, "Iter");
        empty!(IterMut<'static, KD::K, KD::V>, "IterMut");
        empty!(Keys<'static, KD::K, KD::V>, "Keys");
        empty!(Values<'static, KD::K, KD::V>, "Values");
        empty!(ValuesMut<'static, KD::K, KD::V>, "ValuesMut");
        empty!(IntoIter<KD::K, KD::V, N>, "IntoIter");
        empty!(IntoKeys<KD::K, KD::V, N>, "IntoKeys");
        empty!(IntoValues<KD::K, KD::V, N>, "IntoValues");
    }

    pub fn op_walk(&mut self, w: usize, a: u8, b: u8, c: u8) {
        if c & 0x0f == 0x0f {
            Self::check_default_iters(self.cx);
        }
        let liar = self.liar;
        let base = self.newval(0);
        let mut fault = false;
        {
            let Some(slot) = self.slots[w].as_mut() else { return };
            let cx = &mut *self.cx;
            let kind = scale(a, 7);
            let n = slot.model.len();
            let cut = scale(b, n + 2);
            cx.bump(S::walks);
            if n >= 2 && slot.swapped && cut > 0 && cut < n {
                cx.bump(S::walks_cut_inside_after_swap);
            }
            let nv = |raw: u8| KD::vnorm(base | raw as u32);
            // adaptor probe (nth / last / fold / count / skip) taken at the cut point
            let pwhich = ((c >> 3) as usize * mmv_base::probe::NPROBES) >> 4;
            let pk = ((c & 0x0f) as usize * (n + 2)) >> 4;
            const FLIP: u32 = 0x0080_0000;
            let model0 = slot.model.clone();
            let want_fmt = !liar && (cx.armed == Prop::C19 || cx.armed == Prop::C06);

            // First traversal with all per-step checks. $clone: Some(closure) for Clone iterators.
            macro_rules! traverse {
                ($mk:expr, $ext:expr, $proj:expr, $name:expr, clone) => {{
                    let mut ys: Vec<Y> = Vec::with_capacity(N + 8);
                    let mut hints: Vec<(usize, (usize, Option<usize>))> = Vec::with_capacity(N + 8);
                    let mut crest: Option<Vec<Y>> = None;
                    let mut ccount: Option<usize> = None;
                    let mut dbg: Option<(usize, String)> = None;
                    let mut pout: Option<ProbeOut<Y>> = None;
                    let mut it = $mk;
                    loop {
                        hints.push(mmv_base::probe::hint_of(&it));
                        if ys.len() == cut {
                            pout = Some(probe(cx, KD::NOALLOC, it.clone(), pwhich, pk, N, $ext));
                            let c1 = it.clone();
                            ccount = Self::lib(cx, move || c1.count()).ok();
                            let c2 = it.clone();
                            crest = Some(c2.map($ext).collect());
                            if want_fmt {
                                if let Ok(o) = fmt_debug::<KD>(cx, &it, false) {
                                    dbg = Some((ys.len(), o));
                                }
                            }
                        }
                        match Self::lib(cx, || it.next()) {
                            Ok(Some(x)) => ys.push(($ext)(x)),
                            Ok(None) => break,
                            Err(p) => {
                                fault |= unexpected(cx, liar, P09, &p);
                                break;
                            }
                        }
                        if ys.len() > N + 4 {
                            cx.chk(P09, false, "overlong", || format!("{} yields more items than the capacity", $name));
                            break;
                        }
                    }
                    for _ in 0..3 {
                        let none = mmv_base::probe::ended_none(&mut it);
                        cx.chk(P09, none, "not-fused", || format!("{} yielded an item after returning None", $name));
                    }
                    {
                        // after the end the exact-size report is 0 (len(), size_hint()), not an underflowed cursor
                        let h = mmv_base::probe::hint_of(&it);
                        cx.chk(P09, h == (0, (0, Some(0))), "exact-len", || format!("after the end: len()={} size_hint={:?}", h.0, h.1));
                    }
                    let total = ys.len();
                    if let Some(cr) = &crest {
                        let rest = &ys[cut.min(total)..];
                        cx.chk(P09, cr.as_slice() == rest, "clone-continues", || format!("a clone of {} taken after {cut} items continues differently from the original", $name));
                        cx.chk(P09, ccount == Some(total - cut.min(total)), "count", || format!("{}: count() after {cut} of {total} items = {ccount:?}", $name));
                    }
                    if let Some(po) = &pout {
                        if !liar && !fault {
                            let r = check_ordered(po, &ys[cut.min(total)..], true);
                            cx.chk(P09, r.is_ok(), "adaptor", || format!("{} after {cut} of {total} items: {}", $name, r.clone().err().unwrap_or_default()));
                        }
                    }
                    if let Some((at, out)) = &dbg {
                        let rest: Vec<(u8, u32)> = ys[*at..].iter().map(|y| {
                            let raw = if y.raw >= 0 { y.raw as u8 } else { 0 };
                            let val = if y.val >= 0 { y.val as u32 } else { 0 };
                            (raw, val)
                        }).collect();
                        if *at > 0 && *at < total {
                            cx.bump(S::fmt_iter_partial);
                        }
                        check_iter_debug::<KD>(cx, $name, out, &rest, $proj);
                    }
                    (ys, hints)
                }};
                ($mk:expr, $ext:expr, $proj:expr, $name:expr, noclone) => {{
                    let mut ys: Vec<Y> = Vec::with_capacity(N + 8);
                    let mut hints: Vec<(usize, (usize, Option<usize>))> = Vec::with_capacity(N + 8);
                    let mut dbg: Option<(usize, String)> = None;
                    let mut it = $mk;
                    loop {
                        hints.push(mmv_base::probe::hint_of(&it));
                        if ys.len() == cut && want_fmt {
                            if let Ok(o) = fmt_debug::<KD>(cx, &it, false) {
                                dbg = Some((ys.len(), o));
                            }
                        }
                        match Self::lib(cx, || it.next()) {
                            Ok(Some(x)) => ys.push(($ext)(x)),
                            Ok(None) => break,
                            Err(p) => {
                                fault |= unexpected(cx, liar, P09, &p);
                                break;
                            }
                        }
                        if ys.len() > N + 4 {
                            cx.chk(P09, false, "overlong", || format!("{} yields more items than the capacity", $name));
                            break;
                        }
                    }
                    for _ in 0..3 {
                        let none = mmv_base::probe::ended_none(&mut it);
                        cx.chk(P09, none, "not-fused", || format!("{} yielded an item after returning None", $name));
                    }
                    {
                        // after the end the exact-size report is 0 (len(), size_hint()), not an underflowed cursor
                        let h = mmv_base::probe::hint_of(&it);
                        cx.chk(P09, h == (0, (0, Some(0))), "exact-len", || format!("after the end: len()={} size_hint={:?}", h.0, h.1));
                    }
                    if let Some((at, out)) = &dbg {
                        // entries not yet yielded when the snapshot was taken (values before the write)
                        let rest: Vec<(u8, u32)> = ys[*at..].iter().map(|y| {
                            let raw = if y.raw >= 0 { y.raw as u8 } else { 0 };
                            let val = if y.val >= 0 { y.val as u32 } else { 0 };
                            (raw, val)
                        }).collect();
                        if *at > 0 && *at < ys.len() {
                            cx.bump(S::fmt_iter_partial);
                        }
                        check_iter_debug::<KD>(cx, $name, out, &rest, $proj);
                    }
                    (ys, hints)
                }};
            }
            let m = &mut slot.c.m;
            let mut wrote = 0u8; // 0 none, 1 by key, 2 flip
            let (ys, hints, name): (Vec<Y>, Vec<_>, &str) = match kind {
                0 => {
                    let (y, h) = traverse!(m.iter(), |(k, v)| ykv::<KD>(k, v), 0, "iter()", clone);
                    (y, h, "iter()")
                }
                1 => {
                    wrote = 1;
                    let (y, h) = traverse!(
                        m.iter_mut(),
                        |(k, v): (&KD::K, &mut KD::V)| {
                            let y = ykv::<KD>(k, v);
                            KD::vset(v, nv(KD::kraw(k)));
                            y
                        },
                        0,
                        "iter_mut()",
                        noclone
                    );
                    (y, h, "iter_mut()")
                }
                2 => {
                    let (y, h) = traverse!(m.keys(), |k| yk::<KD>(k), 1, "keys()", clone);
                    (y, h, "keys()")
                }
                3 => {
                    let (y, h) = traverse!(m.values(), |v| yv::<KD>(v), 2, "values()", clone);
                    (y, h, "values()")
                }
                4 => {
                    wrote = 2;
                    let (y, h) = traverse!(
                        m.values_mut(),
                        |v: &mut KD::V| {
                            let y = yv::<KD>(v);
                            KD::vset(v, KD::vnorm(KD::vval(v) ^ FLIP));
                            y
                        },
                        2,
                        "values_mut()",
                        noclone
                    );
                    (y, h, "values_mut()")
                }
                5 => {
                    let (y, h) = traverse!((&*m).into_iter(), |(k, v)| ykv::<KD>(k, v), 0, "(&map).into_iter()", clone);
                    (y, h, "(&map).into_iter()")
                }
                _ => {
                    wrote = 1;
                    let (y, h) = traverse!(
                        (&mut *m).into_iter(),
                        |(k, v): (&KD::K, &mut KD::V)| {
                            let y = ykv::<KD>(k, v);
                            KD::vset(v, nv(KD::kraw(k)));
                            y
                        },
                        0,
                        "(&mut map).into_iter()",
                        noclone
                    );
                    (y, h, "(&mut map).into_iter()")
                }
            };
            let total = ys.len();
            cx.log(|| format!("walk[{w}] {name} cut {cut}: {} items {:?}", total, ys.iter().map(|y| (y.raw, y.val)).collect::<Vec<_>>()));
            if !liar && !fault {
                for (i, h) in hints.iter().enumerate() {
                    let rem = total.saturating_sub(i);
                    cx.chk(P09, h.0 == rem && h.1 == (rem, Some(rem)), "exact-len", || format!("{name} after {i} of {total} items: len()={} size_hint={:?}", h.0, h.1));
                }
                // each stored entry exactly once, nothing else
                cx.chk(P09, total == model0.len(), "coverage", || format!("{name} yielded {total} items, the map holds {}", model0.len()));
                let mut seen_k: Vec<i16> = Vec::new();
                let mut vals_seen: Vec<i64> = Vec::new();
                for y in &ys {
                    if y.raw >= 0 {
                        cx.chk(P09, !seen_k.contains(&y.raw), "repeat", || format!("{name} yielded key {} twice", y.raw));
                        seen_k.push(y.raw);
                        match model0.get(&(y.raw as u8)) {
                            Some(e) => {
                                if y.val >= 0 {
                                    cx.chk(P09, e.val as i64 == y.val && (!KD::IDENT || e.vid == y.vid), "yield", || format!("{name} yielded key {} with value {}, stored is {}", y.raw, y.val, e.val));
                                }
                                if KD::IDENT {
                                    cx.chk(P12.and(Prop::C09), e.kid == y.kid, "exposed-key-identity", || format!("{name} yielded key object #{}, stored is #{}", y.kid, e.kid));
                                }
                            }
                            None => {
                                cx.chk(P09, false, "yield", || format!("{name} yielded key {} which is not stored", y.raw));
                            }
                        }
                    } else {
                        vals_seen.push(y.val);
                    }
                }
                if !vals_seen.is_empty() || (kind == 3 || kind == 4) {
                    let mut want: Vec<i64> = model0.values().map(|e| e.val as i64).collect();
                    want.sort_unstable();
                    vals_seen.sort_unstable();
                    cx.chk(P09, want == vals_seen, "yield", || format!("{name} yielded values {vals_seen:?}, stored are {want:?}"));
                }
                for y in &ys {
                    cx.bump(S::addr_checks);
                    let ok = (y.ka == 0 || slot.c.contains(y.ka, std::mem::size_of::<KD::K>())) && (y.va == 0 || slot.c.contains(y.va, std::mem::size_of::<KD::V>()));
                    cx.chk(P_ADDR, ok, "addr", || format!("{name} yields a reference outside the container value"));
                }
                // model update for writes
                if wrote == 1 {
                    for y in &ys {
                        if let Some(e) = slot.model.get_mut(&(y.raw as u8)) {
                            e.val = nv(y.raw as u8);
                        }
                    }
                    cx.add(S::iter_writes, total as u64);
                } else if wrote == 2 {
                    for e in slot.model.values_mut() {
                        e.val = KD::vnorm(e.val ^ FLIP);
                    }
                    cx.add(S::iter_writes, total as u64);
                }
                // second traversal: same order; fresh iterator advanced to the cut: count()
                let m = &mut slot.c.m;
                let second: Vec<(usize, usize)> = match kind {
                    0 | 1 | 5 | 6 => m.iter().map(|(k, v)| (addr(k), addr(v))).collect(),
                    2 => m.keys().map(|k| (addr(k), 0)).collect(),
                    _ => m.values().map(|v| (0, addr(v))).collect(),
                };
                let first: Vec<(usize, usize)> = ys.iter().map(|y| (y.ka, y.va)).collect();
                cx.chk(P09, first == second, "order-stable", || format!("two traversals without an intervening mutation ({name}, then again) yield different orders"));
                let c = cut.min(total);
                let cnt: Result<usize, Pk> = match kind {
                    1 | 6 => {
                        let mut it = m.iter_mut();
                        for _ in 0..c {
                            it.next();
                        }
                        Self::lib(cx, move || it.count())
                    }
                    4 => {
                        let mut it = m.values_mut();
                        for _ in 0..c {
                            it.next();
                        }
                        Self::lib(cx, move || it.count())
                    }
                    _ => Ok(total - c),
                };
                cx.chk(P09, cnt == Ok(total - c), "count", || format!("{name}: count() after {c} of {total} items = {cnt:?}"));
                // adaptor probe on a fresh mutable iterator advanced to the cut (entries identified by address)
                let rest_addr: Vec<(usize, usize)> = ys[c..].iter().map(|y| (y.ka, y.va)).collect();
                let po: Option<ProbeOut<(usize, usize)>> = match kind {
                    1 | 6 => {
                        let mut it = m.iter_mut();
                        for _ in 0..c {
                            it.next();
                        }
                        Some(probe(cx, KD::NOALLOC, it, pwhich, pk, N, |(k, v): (&KD::K, &mut KD::V)| (addr(k), addr(v))))
                    }
                    4 => {
                        let mut it = m.values_mut();
                        for _ in 0..c {
                            it.next();
                        }
                        Some(probe(cx, KD::NOALLOC, it, pwhich, pk, N, |v: &mut KD::V| (0usize, addr(v))))
                    }
                    _ => None,
                };
                if let Some(po) = &po {
                    let r = check_ordered(po, &rest_addr, true);
                    cx.chk(P09, r.is_ok(), "adaptor", || format!("{name} after {c} of {total} items: {}", r.clone().err().unwrap_or_default()));
                }
            } else if wrote != 0 {
                // keep the model in step even if unchecked
                for y in &ys {
                    if y.raw >= 0 {
                        if let Some(e) = slot.model.get_mut(&(y.raw as u8)) {
                            e.val = nv(y.raw as u8);
                        }
                    }
                }
            }
            self.groups |= 8;
        }
        self.note_fault(fault, false);
        self.after(P09, P12);
    }

    pub fn op_consume(&mut self, w: usize, a: u8, b: u8, c: u8) {
        let liar = self.liar;
        let mut fault = false;
        {
            let Some(slot) = self.slots[w].as_mut() else { return };
            let cx = &mut *self.cx;
            let kind = scale(a, 3);
            let pre_obs = Self::observe(&slot.c).unwrap_or_default();
            let before = std::mem::take(&mut slot.model);
            let n = if liar { pre_obs.len() } else { before.len() };
            let take = scale(b, n + 2);
            // 0 drop, 1 run to the end, 2 forget, 3.. = adaptor probe (nth/last/fold/count/skip) on the rest
            let end = (c as usize * (3 + mmv_base::probe::NPROBES)) >> 7;
            let pk = ((a & 0x1f) as usize * (n + 2)) >> 5;
            cx.bump(S::consumes);
            if take > 0 && take < n && end != 1 {
                cx.bump(S::partial_consumes);
            }
            let owned: M<KD, N> = std::mem::replace(&mut slot.c.m, Map::new());
            let want_fmt = !liar && (cx.armed == Prop::C19 || cx.armed == Prop::C06);
            let mut yielded: Vec<Y> = Vec::with_capacity(n + 4);
            let mut hints: Vec<(usize, (usize, Option<usize>))> = Vec::with_capacity(n + 4);
            macro_rules! consume {
                ($mk:expr, $ext:expr, $proj:expr, $name:expr) => {{
                    let mut rv = mmv_base::probe::Roving::new($mk);
                    let mut ended = false;
                    for i in 0..take {
                        let it = rv.get();
                        hints.push(mmv_base::probe::hint_of(&it));
                        match Self::lib(cx, || it.next()) {
                            Ok(Some(x)) => yielded.push(($ext)(x)),
                            Ok(None) => {
                                ended = true;
                                break;
                            }
                            Err(p) => {
                                fault |= unexpected(cx, liar, P10, &p);
                                break;
                            }
                        }
                        if i == 0 {
                            // a partially consumed iterator is moved to another place (old place overwritten)
                            rv.relocate();
                            cx.bump(S::relocations);
                        }
                    }
                    let mut it = rv.into_inner();
                    if want_fmt {
                        let rest: Vec<(u8, u32)> = before
                            .iter()
                            .filter(|(k, e)| !yielded.iter().any(|y| (y.raw >= 0 && y.raw == **k as i16) || (y.raw < 0 && KD::IDENT && y.vid == e.vid)))
                            .map(|(k, e)| (*k, e.val))
                            .collect();
                        // for untracked into_values the yielded values identify the entries (values are unique per step)
                        let rest: Vec<(u8, u32)> = if $proj == 2 && !KD::IDENT {
                            // multiset subtraction: each yielded value accounts for one entry
                            let mut all: Vec<(u8, u32)> = before.iter().map(|(k, e)| (*k, e.val)).collect();
                            for y in yielded.iter() {
                                if let Some(p) = all.iter().position(|(_, v)| *v as i64 == y.val) {
                                    all.remove(p);
                                }
                            }
                            all
                        } else {
                            rest
                        };
                        if let Ok(out) = fmt_debug::<KD>(cx, &it, false) {
                            if take > 0 && take < n {
                                cx.bump(S::fmt_iter_partial);
                            }
                            check_iter_debug::<KD>(cx, $name, &out, &rest, $proj);
                        }
                    }
                    match end {
                        1 => {
                            let mut guard = 0;
                            while !ended {
                                hints.push(mmv_base::probe::hint_of(&it));
                                match Self::lib(cx, || it.next()) {
                                    Ok(Some(x)) => yielded.push(($ext)(x)),
                                    Ok(None) => ended = true,
                                    Err(p) => {
                                        fault |= unexpected(cx, liar, P10, &p);
                                        break;
                                    }
                                }
                                guard += 1;
                                if guard > n + 4 {
                                    cx.chk(P10, false, "overlong", || format!("{} yields more items than the map held", $name));
                                    break;
                                }
                            }
                            if ended {
                                for _ in 0..3 {
                                    let none = mmv_base::probe::ended_none(&mut it);
                                    cx.chk(P10, none, "not-fused", || format!("{} yielded an item after returning None", $name));
                                }
                                {
                                    // after the end the exact-size report is 0 (len(), size_hint()), not an underflowed cursor
                                    let h = mmv_base::probe::hint_of(&it);
                                    cx.chk(P10, h == (0, (0, Some(0))), "exact-len", || format!("after the end: len()={} size_hint={:?}", h.0, h.1));
                                }
                            }
                            if let Err(p) = Self::lib(cx, move || drop(it)) {
                                fault |= unexpected(cx, liar, P10, &p);
                            }
                        }
                        2 => {
                            cx.bump(S::forgets);
                            std::mem::forget(it);
                    tl::mark_may_leak();
                            if KD::TRACKED {
                                for e in &pre_obs {
                                    // anything not handed out may stay alive forever
                                    let out_k = yielded.iter().any(|y| y.kid == e.kid);
                                    let out_v = yielded.iter().any(|y| y.vid == e.vid);
                                    if !out_k {
                                        tl::ledger_mark_may_leak(e.kid);
                                    }
                                    if !out_v {
                                        tl::ledger_mark_may_leak(e.vid);
                                    }
                                }
                            }
                        }
                        0 => {
                            if let Err(p) = Self::lib(cx, move || drop(it)) {
                                fault |= unexpected(cx, liar, P10, &p);
                            }
                        }
                        _ => {
                            if ended || fault {
                                let _ = Self::lib(cx, move || drop(it));
                            } else {
                                let po = probe(cx, KD::NOALLOC, it, end - 3, pk, N, |x| {
                                    let y: Y = ($ext)(x);
                                    (y.raw, y.kid, y.val, y.vid)
                                });
                                if po.panicked == Some(mmv_base::tl::Pk::Injected) {
                                    fault = true;
                                } else if !liar {
                                    // entries not yet handed out, in the projection of this iterator
                                    let mut pool: Vec<(u8, Ent)> = before.iter().map(|(k, e)| (*k, *e)).collect();
                                    for y in yielded.iter() {
                                        let pos = if y.raw >= 0 {
                                            pool.iter().position(|(k, _)| *k as i16 == y.raw)
                                        } else {
                                            pool.iter().position(|(_, e)| e.val as i64 == y.val && (!KD::IDENT || e.vid == y.vid))
                                        };
                                        if let Some(p) = pos {
                                            pool.remove(p);
                                        }
                                    }
                                    let rest: Vec<(i16, u32, i64, u32)> = pool
                                        .iter()
                                        .map(|(k, e)| {
                                            let kk = (*k as i16, if KD::IDENT { e.kid } else { NOID });
                                            let vv = (e.val as i64, if KD::IDENT { e.vid } else { NOID });
                                            match $proj {
                                                0 => (kk.0, kk.1, vv.0, vv.1),
                                                1 => (kk.0, kk.1, -1, NOID),
                                                _ => (-1, NOID, vv.0, vv.1),
                                            }
                                        })
                                        .collect();
                                    let r = check_multiset(&po, &rest, true);
                                    cx.chk(P10.and(Prop::C05), r.is_ok(), "adaptor", || format!("{} after {} of {n} items: {}", $name, yielded.len(), r.clone().err().unwrap_or_default()));
                                    cx.log(|| format!("{} probe {}({pk}) -> {:?} tail {:?} count {:?}", $name, PROBE_NAMES[end - 3], po.got, po.tail, po.count));
                                }
                            }
                        }
                    }
                    $name
                }};
            }
            let name: &str = match kind {
                0 => consume!(owned.into_iter(), |(k, v): (KD::K, KD::V)| ykv::<KD>(&k, &v), 0, "into_iter()"),
                1 => consume!(owned.into_keys(), |k: KD::K| yk::<KD>(&k), 1, "into_keys()"),
                _ => consume!(owned.into_values(), |v: KD::V| yv::<KD>(&v), 2, "into_values()"),
            };
            cx.log(|| format!("consume[{w}] {name} take {take} end {end} of {n}: {:?}", yielded.iter().map(|y| (y.raw, y.val)).collect::<Vec<_>>()));
            if !liar {
                for (i, h) in hints.iter().enumerate() {
                    let rem = n.saturating_sub(i);
                    cx.chk(P10, h.0 == rem && h.1 == (rem, Some(rem)), "exact-len", || format!("{name} after {i} of {n} items: len()={} size_hint={:?}", h.0, h.1));
                }
                for (i, y) in yielded.iter().enumerate() {
                    if y.raw >= 0 {
                        let dup = yielded[..i].iter().any(|z| z.raw == y.raw);
                        cx.chk(P10, !dup, "repeat", || format!("{name} yielded key {} twice", y.raw));
                        match before.get(&(y.raw as u8)) {
                            Some(e) => {
                                if y.val >= 0 {
                                    cx.chk(P10, e.val as i64 == y.val && (!KD::IDENT || e.vid == y.vid), "yield", || format!("{name} yielded key {} with value {}, the map held {}", y.raw, y.val, e.val));
                                }
                                if KD::IDENT {
                                    cx.chk(P12, e.kid == y.kid, "exposed-key-identity", || format!("{name} yielded key object #{}, stored was #{}", y.kid, e.kid));
                                }
                            }
                            None => {
                                cx.chk(P10, false, "yield", || format!("{name} yielded key {} which the map did not hold", y.raw));
                            }
                        }
                    } else {
                        let hit = before.values().filter(|e| e.val as i64 == y.val && (!KD::IDENT || e.vid == y.vid)).count();
                        let dup = yielded[..i].iter().filter(|z| z.val == y.val && z.vid == y.vid).count();
                        cx.chk(P10, hit > dup, "yield", || format!("{name} yielded value {} which the map did not hold (or yielded it twice)", y.val));
                    }
                }
                if end == 1 && !fault {
                    cx.chk(P10, yielded.len() == n, "incomplete", || format!("{name} run to the end yielded {} of {n} entries", yielded.len()));
                }
            }
            cx.bump(S::mutations);
            self.groups |= 8;
        }
        self.note_fault(fault, true);
        self.note_clone_mutation(w);
        self.after(P10, P12);
    }
}
