//! `wide`: maps with more than 256 entries (`Map<u16, u32, 300>`, `Set<u16, 300>`).
//!
//! The history engines name keys by a `u8`, so they cannot fill a container past 255 entries;
//! this small model-based interpreter exists for exactly that region: slot indices, lengths and
//! request positions above 255 (a narrow `u8` counter or an `as u8` cast inside the library is
//! exact below it). Plain `Copy` payloads only; the oracles are the reference dictionary, the
//! standing invariants, `get_mut` agreement of `get_disjoint_mut`, extensional equality, clone
//! equality and exact iterator lengths.

use micromap::{Map, Set};
use mmv_base::case::{scale, Case, Prop, PS};
use mmv_base::ctx::{Ctx, S};
use mmv_base::tl;
use std::collections::BTreeMap;

pub const WN: usize = 300;
const U: usize = 310;

const P01: PS = PS::of(Prop::C01);
const P05: PS = PS::of(Prop::C05);
const P07: PS = PS::of(Prop::C07);
const P09: PS = PS::of(Prop::C09);
const P10: PS = PS::of(Prop::C10);
const P13: PS = PS::of(Prop::C13);
const P14: PS = PS::of(Prop::C14);
const P15: PS = PS::of(Prop::C15);

const P06: PS = PS::of(Prop::C06);
const P08: PS = PS::of(Prop::C08);

/// One lazy set-algebra iterator of the library against the mathematical result: stepped with
/// `next` into a pre-allocated buffer (allocation oracle on), `size_hint` bracketing the items
/// still to come at every step, no element repeated, and a clone folded from the middle.
fn alg_check<'a, I: Iterator<Item = &'a u16> + Clone>(cx: &mut Ctx, name: &str, it: I, want: &std::collections::BTreeSet<u16>) {
    let mut buf: Vec<u16> = Vec::with_capacity(2 * WN + 8);
    let mut hints: Vec<(usize, Option<usize>)> = Vec::with_capacity(2 * WN + 8);
    let mid = want.len() / 2;
    let mut folded_mid = usize::MAX;
    let r = wl(cx, || {
        let mut it = it;
        loop {
            if buf.len() >= 2 * WN + 4 {
                break;
            }
            hints.push(it.size_hint());
            if buf.len() == mid {
                folded_mid = it.clone().fold(0usize, |n, _| n + 1);
            }
            match it.next() {
                Some(x) => buf.push(*x),
                None => break,
            }
        }
    });
    cx.bump(S::alg_pairs);
    if r.is_err() {
        cx.chk(P08, false, "unexpected-panic", || format!("{name} panicked"));
        return;
    }
    let total = buf.len();
    let mut sorted = buf.clone();
    sorted.sort_unstable();
    let repeated = sorted.windows(2).any(|w| w[0] == w[1]);
    cx.chk(P08, !repeated, "algebra-repeat", || format!("{name} yields an element more than once ({total} items)"));
    let wantv: Vec<u16> = want.iter().copied().collect();
    cx.chk(P08, sorted == wantv, "algebra-result", || {
        let missing = wantv.iter().find(|x| sorted.binary_search(x).is_err());
        let extra = sorted.iter().find(|x| wantv.binary_search(x).is_err());
        format!("{name} yields {total} items, the mathematical result has {} (missing e.g. {missing:?}, extra e.g. {extra:?})", wantv.len())
    });
    for (i, (lo, hi)) in hints.iter().enumerate() {
        let rem = total - i.min(total);
        let ok = *lo <= rem && hi.map(|h| h >= rem).unwrap_or(true);
        if !cx.chk(P08, ok, "size_hint", || format!("{name} after {i} of {total} items: size_hint ({lo}, {hi:?}) does not bracket the {rem} items still to come")) {
            break;
        }
    }
    if total == wantv.len() && mid <= total {
        cx.chk(P08, folded_mid == total - mid, "fold", || format!("{name}: a clone folded after {mid} of {total} items visited {folded_mid} items"));
    }
    cx.bump(S::alg_prefix_checks);
}

/// All lazy operations and the three predicates for one ordered pair of sets.
fn alg_pair<const A: usize, const B: usize>(cx: &mut Ctx, x: &Set<u16, A>, y: &Set<u16, B>) {
    use std::collections::BTreeSet;
    let mx: BTreeSet<u16> = x.iter().copied().collect();
    let my: BTreeSet<u16> = y.iter().copied().collect();
    let tag = format!("Set<_, {A}>({}) vs Set<_, {B}>({})", mx.len(), my.len());
    alg_check(cx, &format!("union {tag}"), x.union(y), &mx.union(&my).copied().collect());
    alg_check(cx, &format!("intersection {tag}"), x.intersection(y), &mx.intersection(&my).copied().collect());
    alg_check(cx, &format!("difference {tag}"), x.difference(y), &mx.difference(&my).copied().collect());
    alg_check(cx, &format!("symmetric_difference {tag}"), x.symmetric_difference(y), &mx.symmetric_difference(&my).copied().collect());
    let p = wl(cx, || (x.is_subset(y), x.is_superset(y), x.is_disjoint(y)));
    let want = (mx.is_subset(&my), mx.is_superset(&my), mx.is_disjoint(&my));
    cx.chk(P08, p == Ok(want), "predicates", || format!("{tag}: (is_subset, is_superset, is_disjoint) = {p:?}, mathematically {want:?}"));
    if !(mx.is_disjoint(&my) || mx == my || mx.is_subset(&my) || my.is_subset(&mx)) {
        cx.bump(S::alg_proper_overlap);
    }
}

/// a library call; when it returns normally it must not have asked the allocator for anything
/// (payloads are plain integers)
fn wl<R>(cx: &mut Ctx, f: impl FnOnce() -> R) -> Result<R, tl::Pk> {
    let r = tl::lib(f);
    if r.is_ok() {
        cx.bump(S::alloc_checks);
        let n = tl::last_allocs();
        let op = cx.cur_op;
        cx.chk(P06, n == 0, "alloc", || format!("{n} allocator request(s) during a non-panicking `{op}` on a map of {WN} plain entries"));
    }
    r
}

fn key(i: usize) -> u16 {
    (i % U) as u16 * 7 + 1
}

struct W<'c> {
    cx: &'c mut Ctx,
    m: Box<Map<u16, u32, WN>>,
    model: BTreeMap<u16, u32>,
    step: u32,
}

impl W<'_> {
    fn sweep(&mut self, full: bool) {
        let cx = &mut *self.cx;
        let len = self.m.len();
        cx.chk(P01.union(P05), len == self.model.len(), "len", || format!("len()={len}, the model holds {} entries", self.model.len()));
        cx.chk(P05, len <= self.m.capacity() && self.m.is_empty() == (len == 0), "len-vs-capacity", || format!("len()={len} capacity()={} is_empty()={}", self.m.capacity(), self.m.is_empty()));
        if !full {
            return;
        }
        let r = tl::quiet(|| {
            let it = self.m.iter();
            let hint = (it.len(), it.size_hint());
            let v: Vec<(u16, u32)> = it.map(|(k, v)| (*k, *v)).collect();
            (hint, v)
        });
        let Ok((hint, seq)) = r else {
            cx.chk(P01.union(P05).union(P09), false, "broken-container", || "iterating the map panicked".into());
            return;
        };
        cx.chk(P09.union(P05), hint == (len, (len, Some(len))) && seq.len() == len, "exact-len", || format!("iter(): len()/size_hint = {hint:?}, yielded {}, map len {len}", seq.len()));
        let mut sorted = seq.clone();
        sorted.sort_unstable();
        let dup = sorted.windows(2).any(|w| w[0].0 == w[1].0);
        cx.chk(P05, !dup, "duplicate-key", || "a key is yielded twice by iteration".into());
        let want: Vec<(u16, u32)> = self.model.iter().map(|(k, v)| (*k, *v)).collect();
        cx.chk(P01, sorted == want, "state-vs-model", || {
            let bad = sorted.iter().find(|e| self.model.get(&e.0) != Some(&e.1));
            format!("the map's entries differ from the model (e.g. {bad:?}; {} stored vs {} expected)", sorted.len(), want.len())
        });
        // every yielded key looks up the value yielded with it (slots above 255 included)
        for (i, (k, v)) in seq.iter().enumerate() {
            if i % 3 == 0 || i >= 250 {
                let got = tl::quiet(|| self.m.get(k).copied());
                cx.chk(P05.union(P01), got == Ok(Some(*v)), "yield-vs-get", || format!("get({k}) = {got:?} but iteration yields ({k}, {v}) in slot {i}"));
            }
        }
    }

    fn op(&mut self, o: [u8; 4]) {
        self.step += 1;
        let ki = ((o[1] as usize) << 8 | o[2] as usize) % U;
        let k = key(ki);
        let v = (self.step << 8) | o[3] as u32;
        let cx = &mut *self.cx;
        let kind = match cx.armed {
            // the campaigns of C08 / C06 spend half / a quarter of their operations on the
            // set-algebra and fat-container operations
            Prop::C08 if o[0] & 1 == 0 => 12,
            Prop::C06 if o[0] & 3 == 0 => 14,
            _ => scale(o[0], 15),
        };
        cx.bump(S::ops);
        let present = self.model.get(&k).copied();
        let full = self.model.len() >= WN;
        match kind {
            0 | 1 | 2 => {
                cx.cur_op = "insert";
                let r = wl(cx, || if kind == 2 { self.m.checked_insert(k, v) } else if kind == 1 { Some(self.m.insert_key_value(k, v).map(|p| p.1)) } else { Some(self.m.insert(k, v)) });
                match (r, present, full) {
                    (Ok(Some(got)), p, f) if p.is_some() || !f => {
                        cx.chk(P01, got == p, "return", || format!("insert({k}) returned {got:?}, the model had {p:?}"));
                        self.model.insert(k, v);
                    }
                    (Ok(None), None, true) if kind == 2 => {}
                    (Err(p), None, true) if kind != 2 && p != tl::Pk::Injected => {
                        cx.bump(S::lib_panics);
                    }
                    (other, p, f) => {
                        let o = format!("{other:?}");
                        cx.chk(P01, false, "return", || format!("insert variant {kind} of key {k} (present {p:?}, full {f}) gave {o}"));
                    }
                }
            }
            3 | 4 => {
                cx.cur_op = "remove";
                let r = wl(cx, || if kind == 3 { self.m.remove(&k) } else { self.m.remove_entry(&k).map(|p| p.1) });
                cx.chk(P01, r == Ok(present), "return", || format!("remove({k}) returned {r:?}, the model had {present:?}"));
                if r.is_ok() {
                    self.model.remove(&k);
                    if present.is_some() {
                        cx.bump(S::removals);
                    }
                }
            }
            5 => {
                cx.cur_op = "get_mut";
                let r = wl(cx, || {
                    self.m.get_mut(&k).map(|x| {
                        let old = *x;
                        *x = v;
                        old
                    })
                });
                cx.chk(P01, r == Ok(present), "lookup", || format!("get_mut({k}) gave {r:?}, the model has {present:?}"));
                if present.is_some() {
                    self.model.insert(k, v);
                }
                let c = wl(cx, || (self.m.contains_key(&k), self.m.get_key_value(&k).map(|(a, b)| (*a, *b))));
                cx.chk(P01, c == Ok((present.is_some(), present.map(|_| (k, v)))), "lookup", || format!("contains_key / get_key_value({k}) gave {c:?}"));
            }
            6 => {
                cx.cur_op = "retain";
                let mask = o[3] as u16 | 0x11;
                let keep = |k: u16| (mask >> (k % 8)) & 1 == 1;
                let r = wl(cx, || self.m.retain(|k, _| keep(*k)));
                cx.chk(P01, r.is_ok(), "unexpected-panic", || "retain panicked".into());
                self.model.retain(|k, _| keep(*k));
            }
            7 => {
                // get_disjoint_mut: three keys in the neighbourhood, most of them present, in a
                // generated order; compared position by position with get_mut
                cx.cur_op = "get_disjoint_mut";
                let ks = [k, key(ki + 1 + o[3] as usize % 5), key(ki + 301 - (o[3] as usize >> 4))];
                if ks[0] != ks[1] && ks[1] != ks[2] && ks[0] != ks[2] {
                    let want: Vec<Option<u32>> = ks.iter().map(|q| self.model.get(q).copied()).collect();
                    let addrs: Vec<usize> = ks.iter().map(|q| tl::quiet(|| self.m.get_mut(q).map(|x| x as *mut u32 as usize).unwrap_or(0)).unwrap_or(0)).collect();
                    let r = wl(cx, || self.m.get_disjoint_mut([&ks[0], &ks[1], &ks[2]]).map(|o| o.map(|x| (*x, x as *mut u32 as usize))));
                    match r {
                        Ok(got) => {
                            for i in 0..3 {
                                cx.chk(P13, got[i].map(|g| g.0) == want[i] && got[i].map(|g| g.1).unwrap_or(0) == addrs[i], "position", || format!("position {i} (key {}): got {:?}, get_mut gives {:?}", ks[i], got[i].map(|g| g.0), want[i]));
                            }
                            cx.bump(S::disjoint_calls);
                        }
                        Err(p) => {
                            let n = p.name();
                            cx.chk(P13, false, "unexpected-panic", || format!("get_disjoint_mut({ks:?}) with pairwise different keys panicked: {n}"));
                        }
                    }
                }
            }
            13 => {
                // get_disjoint_mut with 200 requested keys (J > 170, most of them present): scratch
                // space proportional to J must come from the stack
                cx.cur_op = "get_disjoint_mut";
                const BJ: usize = 200;
                let stride = [1usize, 3, 7][o[3] as usize % 3];
                let ks: [u16; BJ] = core::array::from_fn(|j| key(ki + j * stride));
                let refs: [&u16; BJ] = core::array::from_fn(|j| &ks[j]);
                let want: Vec<Option<u32>> = ks.iter().map(|q| self.model.get(q).copied()).collect();
                let addrs: Vec<usize> = ks.iter().map(|q| tl::quiet(|| self.m.get_mut(q).map(|x| x as *mut u32 as usize).unwrap_or(0)).unwrap_or(0)).collect();
                let r = wl(cx, || self.m.get_disjoint_mut(refs).map(|o| o.map(|x| (*x, x as *mut u32 as usize))));
                match r {
                    Ok(got) => {
                        let bad = (0..BJ).find(|&i| got[i].map(|g| g.0) != want[i] || got[i].map(|g| g.1).unwrap_or(0) != addrs[i]);
                        cx.chk(P13, bad.is_none(), "position", || {
                            let i = bad.unwrap();
                            format!("{BJ} keys requested: position {i} (key {}): got {:?}, get_mut gives {:?}", ks[i], got[i].map(|g| g.0), want[i])
                        });
                        cx.bump(S::disjoint_calls);
                    }
                    Err(p) => {
                        let n = p.name();
                        cx.chk(P13, false, "unexpected-panic", || format!("get_disjoint_mut of {BJ} pairwise different keys panicked: {n}"));
                    }
                }
            }
            8 => {
                cx.cur_op = "clone";
                let r = wl(cx, || Map::clone(&self.m));
                match r {
                    Ok(c) => {
                        let same = tl::quiet(|| c == *self.m && *self.m == c).unwrap_or(false);
                        let got: BTreeMap<u16, u32> = c.iter().map(|(k, v)| (*k, *v)).collect();
                        cx.chk(P15.union(P14), same && got == self.model && c.len() == self.model.len(), "clone-equal", || format!("a clone of {} entries is not equal to the original ({} entries in the clone, == gives {same})", self.model.len(), c.len()));
                        cx.bump(S::clones);
                        // consume the clone: exact lengths all the way
                        let mut it = c.into_iter();
                        let mut n = self.model.len();
                        let mut ok = true;
                        loop {
                            ok &= it.len() == n && it.size_hint() == (n, Some(n));
                            match it.next() {
                                Some((k, v)) => {
                                    ok &= self.model.get(&k) == Some(&v);
                                    n = n.saturating_sub(1);
                                }
                                None => break,
                            }
                        }
                        cx.chk(P10, ok && n == 0, "exact-len", || format!("into_iter over {} entries: wrong length report or entry ({} left by count)", self.model.len(), n));
                        cx.bump(S::consumes);
                    }
                    Err(_) => {
                        cx.chk(P15, false, "unexpected-panic", || "clone panicked".into());
                    }
                }
            }
            9 => {
                cx.cur_op = "eq";
                // an equal map built in another order, then one value changed
                let mut other: Box<Map<u16, u32, WN>> = Box::new(Map::new());
                for (k, v) in self.model.iter().rev() {
                    other.insert(*k, *v);
                }
                let e1 = wl(cx, || *other == *self.m && *self.m == *other);
                cx.chk(P14, e1 == Ok(true), "equality", || format!("two maps with the same {} entries in different slot orders compare {e1:?}", self.model.len()));
                if let Some((kk, vv)) = self.model.iter().nth(o[3] as usize % self.model.len().max(1)) {
                    other.insert(*kk, vv.wrapping_add(1));
                    let e2 = wl(cx, || *other == *self.m || *self.m == *other);
                    cx.chk(P14, e2 == Ok(false), "equality", || format!("maps differing in the value of key {kk} compare equal"));
                }
                cx.bump(S::eq_calls);
            }
            10 => {
                cx.cur_op = "drain";
                let take = scale(o[3], self.model.len() + 1);
                let n0 = self.model.len();
                let r = wl(cx, || {
                    let mut d = self.m.drain();
                    let mut ok = d.len() == n0;
                    for i in 0..take {
                        ok &= d.len() == n0 - i;
                        if d.next().is_none() {
                            ok = false;
                        }
                    }
                    ok
                });
                cx.chk(P10, r == Ok(true) && self.m.is_empty(), "drain", || format!("drain over {n0} entries: wrong lengths ({r:?}) or the map is not empty afterwards (len {})", self.m.len()));
                self.model.clear();
                cx.bump(S::drains);
                // refill so that the case stays in the region above 255 entries
                self.fill(o[3], WN - (o[2] as usize % 3));
            }
            11 => {
                // the same contents as a Set<u16, 300>: membership, remove, take above slot 255
                cx.cur_op = "insert";
                let mut s: Box<Set<u16, WN>> = Box::new(Set::new());
                for k in self.model.keys() {
                    s.insert(*k);
                }
                let ok = wl(cx, || {
                    let mut ok = s.len() == self.model.len();
                    ok &= s.contains(&k) == present.is_some();
                    ok &= s.remove(&k) == present.is_some();
                    ok &= !s.contains(&k);
                    ok &= s.iter().len() == s.len() && s.iter().count() == s.len();
                    ok
                });
                cx.chk(P07.union(P01), ok == Ok(true), "set", || format!("Set<u16, 300> with {} elements: contains / remove / iter of element {k} disagree with the model", self.model.len()));
            }
            12 => {
                // set algebra between a set of more than 255 elements and sets of 5 / 64 / 70 slots
                // (both operand orders): bit masks and index types sized by the wrong operand
                cx.cur_op = "algebra";
                let mut big: Box<Set<u16, WN>> = Box::new(Set::new());
                for k in self.model.keys() {
                    big.insert(*k);
                }
                let mut s5: Set<u16, 5> = Set::new();
                let mut s64: Box<Set<u16, 64>> = Box::new(Set::new());
                let mut s70: Box<Set<u16, 70>> = Box::new(Set::new());
                let stride = 1 + o[3] as usize % 4;
                for j in 0..70usize {
                    // a mixture of present and absent elements, starting anywhere in the key space
                    let kk = if j % 5 == 4 { key(ki + j * stride) + 3 } else { key(ki + j * stride) };
                    if j < 5 {
                        s5.insert(kk);
                    }
                    if j < 64 {
                        s64.insert(kk);
                    }
                    s70.insert(kk);
                }
                if o[1] & 1 == 1 {
                    // two mid-sized sets, the second a near copy of the first: the same elements in
                    // the same, the reverse or a rotated slot order, then up to three of them
                    // removed or replaced (equal lengths of 8 and more with one element different)
                    let n = scale(o[2], 65);
                    let mut a64: Box<Set<u16, 64>> = Box::new(Set::new());
                    let mut b64: Box<Set<u16, 64>> = Box::new(Set::new());
                    let mut b70: Box<Set<u16, 70>> = Box::new(Set::new());
                    let ks: Vec<u16> = (0..n).map(|j| key(ki + j * stride)).collect();
                    for k in &ks {
                        a64.insert(*k);
                    }
                    let order: Vec<u16> = match (o[3] >> 2) & 3 {
                        0 => ks.clone(),
                        1 => ks.iter().rev().copied().collect(),
                        _ => {
                            let r = if n > 0 { (o[3] as usize >> 4) % n } else { 0 };
                            ks[r..].iter().chain(ks[..r].iter()).copied().collect()
                        }
                    };
                    for k in &order {
                        b64.insert(*k);
                        b70.insert(*k);
                    }
                    let edits = o[3] as usize & 3;
                    for e in 0..edits {
                        if n == 0 {
                            break;
                        }
                        let victim = ks[(o[3] as usize * 7 + e * 13 + n - 1) % n];
                        let had = b64.remove(&victim);
                        b70.remove(&victim);
                        if had && e % 2 == 0 {
                            // replaced by an element the first set does not hold
                            b64.insert(victim + 3);
                            b70.insert(victim + 3);
                        }
                    }
                    match o[1] >> 6 {
                        0 => alg_pair(cx, &*a64, &*b64),
                        1 => alg_pair(cx, &*b64, &*a64),
                        2 => alg_pair(cx, &*a64, &*b70),
                        _ => alg_pair(cx, &*b70, &*a64),
                    }
                    let full_sweep = self.step % 4 == 0;
                    self.sweep(full_sweep);
                    return;
                }
                match o[3] >> 5 {
                    0 => alg_pair(cx, &*big, &s5),
                    1 => alg_pair(cx, &s5, &*big),
                    2 | 3 => alg_pair(cx, &*big, &*s64),
                    4 => alg_pair(cx, &*s64, &*big),
                    5 => alg_pair(cx, &*big, &*s70),
                    6 => alg_pair(cx, &*s70, &*big),
                    _ => alg_pair(cx, &*s64, &*s70),
                }
            }
            14 => {
                // the same entries in a container value of more than 4096 bytes (72-byte pairs):
                // clone, comparison, iteration and draining still take nothing from the allocator
                cx.cur_op = "clone";
                let mut fat: Box<Map<u16, [u64; 8], WN>> = Box::new(Map::new());
                for (k, v) in self.model.iter() {
                    fat.insert(*k, [*v as u64; 8]);
                }
                let r = wl(cx, || {
                    let c = Map::clone(&fat);
                    let same = c == *fat && c.len() == fat.len();
                    let n = c.iter().count() + c.keys().len() + c.values().len();
                    let mut c = c;
                    let drained = c.drain().count();
                    same && n == 3 * fat.len() && drained == fat.len() && c.is_empty()
                });
                cx.chk(P15.union(P14).union(P10), r == Ok(true), "fat-clone", || format!("clone / == / iteration / drain of a {}-byte map of {} entries: {r:?}", std::mem::size_of::<Map<u16, [u64; 8], WN>>(), self.model.len()));
                let r2 = wl(cx, || {
                    let mut n = 0usize;
                    for (k, v) in Map::clone(&fat) {
                        if v[7] as u32 as u64 == v[0] && k > 0 {
                            n += 1;
                        }
                    }
                    n
                });
                cx.chk(P10, r2 == Ok(self.model.len()), "fat-into-iter", || format!("into_iter over a cloned fat map yields {r2:?} entries, expected {}", self.model.len()));
                cx.bump(S::clones);
            }
            _ => {
                cx.cur_op = "walk";
                let r = wl(cx, || {
                    let n = self.m.len();
                    let a = self.m.keys().len() == n && self.m.values().len() == n && self.m.iter_mut().len() == n && self.m.values_mut().len() == n;
                    let cut = scale(o[3], n + 1);
                    let mut it = self.m.iter();
                    for _ in 0..cut {
                        it.next();
                    }
                    let b = it.len() == n - cut && it.clone().count() == n - cut && it.size_hint() == (n - cut, Some(n - cut));
                    a && b
                });
                cx.chk(P09, r == Ok(true), "exact-len", || "a borrowing iterator over more than 255 entries reports a wrong length".into());
                cx.bump(S::walks);
            }
        }
        let full_sweep = self.step % 4 == 0 || matches!(kind, 6 | 10);
        self.sweep(full_sweep);
    }

    fn fill(&mut self, seed: u8, target: usize) {
        let stride = [1usize, 3, 7, 11, 13][seed as usize % 5];
        let off = seed as usize * 5;
        let mut i = 0;
        while self.model.len() < target.min(WN) && i < U {
            let k = key(off + i * stride);
            if !self.model.contains_key(&k) {
                let v = 0x00A0_0000 | i as u32;
                if tl::lib(|| self.m.insert(k, v)) == Ok(None) {
                    self.model.insert(k, v);
                }
            }
            i += 1;
        }
        self.cx.add(S::prefilled, self.model.len() as u64);
    }
}

pub fn run(case: &Case, cx: &mut Ctx) {
    tl::ledger_reset();
    tl::liar_off();
    tl::fuse_arm(-1);
    cx.engine = "wide";
    cx.cur_op = "insert";
    let mut w = W { cx, m: Box::new(Map::new()), model: BTreeMap::new(), step: 0 };
    let target = match case.cap2 % 4 {
        0 => WN,
        1 => WN - 1,
        2 => 257 + (case.mode as usize % 40),
        _ => 256,
    };
    w.fill(case.mode, target);
    if w.model.len() >= 256 {
        w.cx.bump(S::reached_full);
    }
    w.sweep(true);
    for (i, o) in case.ops.iter().enumerate() {
        w.cx.step = i;
        if std::panic::catch_unwind(std::panic::AssertUnwindSafe(|| w.op(*o))).is_err() {
            w.cx.discard = true;
            break;
        }
        if w.cx.failed() {
            break;
        }
    }
    w.cx.step = case.ops.len();
    w.cx.cur_op = "final";
    if !w.cx.failed() {
        w.sweep(true);
    }
}
