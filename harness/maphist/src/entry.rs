//! Entry API (C11).

use super::basic::unexpected;
use super::*;
use mmv_base::tl::Cb;
use micromap::Entry;

pub const P11: PS = PS::of(Prop::C11);

/// What an entry chain reported back.
#[derive(Debug, Clone, Copy, Default)]
struct Rep {
    /// Occupied (true) / Vacant (false) as classified by the library, if observable
    occupied: Option<bool>,
    /// value read through the returned reference / accessor (before our write)
    val: Option<u32>,
    vid: u32,
    va: usize,
    /// key exposed by key()/into_key()/remove_entry()
    kraw: Option<u8>,
    kid: u32,
    /// address of the key reference exposed by key() (0 = an owned key was returned)
    ka: usize,
    /// value moved out (insert's old value, remove, remove_entry)
    out_val: Option<u32>,
    out_vid: u32,
    wrote: Option<u32>,
    inserted_vid: u32,
    /// the object behind a returned `&mut V` was a live element when it was handed out
    live: bool,
}

impl<'c, KD: Kind, const N: usize> MapEng<'c, KD, N> {
    pub fn op_entry(&mut self, w: usize, a: u8, b: u8, c: u8) {
        let k = self.key_of(a);
        let v = self.newval(b);
        let v2 = KD::vnorm(v ^ 0x0040_0000);
        let liar = self.liar;
        let mut fault = false;
        let mut mutated = false;
        let mut rejected = false;
        {
            let Some(slot) = self.slots[w].as_mut() else { return };
            let cx = &mut *self.cx;
            let present = slot.model.get(&k).copied();
            let full = slot.model.len() >= N;
            if full {
                self.op_overflow = true;
            }
            let sub = scale(c.wrapping_mul(2) | (b & 1), 13);
            // sub 0..=5 general chains; 6.. match on the variant with a method fitting the model
            let (name, msub): (&'static str, usize) = if sub < 6 {
                (["or_insert", "or_insert_with", "or_insert_with_key", "or_default", "and_modify.or_insert", "key"][sub], sub)
            } else if present.is_some() {
                let i = sub - 6;
                (["occupied.key", "occupied.get", "occupied.get_mut", "occupied.insert", "occupied.remove", "occupied.remove_entry", "occupied.into_mut"][i], 10 + i)
            } else {
                let i = ((sub - 6) * 3) / 7;
                (["vacant.key", "vacant.into_key", "vacant.insert"][i], 20 + i)
            };
            cx.bump(S::entry_ops);
            if present.is_some() {
                cx.bump(S::entry_occupied);
            } else {
                cx.bump(S::entry_vacant);
            }
            let key = KD::key(k);
            let kid = KD::kid(&key);
            let val = KD::val(v);
            let vid = KD::vid(&val);
            let mut runs = 0u32;
            let mut seen_key: Option<(u8, u32)> = None;
            let mut modify_addr = 0usize;
            let m = &mut slot.c.m;
            let r: Result<Rep, Pk> = Self::lib(cx, || {
                let mut rep = Rep { vid: NOID, kid: NOID, out_vid: NOID, inserted_vid: NOID, live: true, ..Default::default() };
                let e = m.entry(key);
                rep.occupied = Some(matches!(e, Entry::Occupied(_)));
                let mut through = |r: &mut KD::V, rep: &mut Rep| {
                    rep.live = KD::vlive(r);
                    rep.val = Some(KD::vval(r));
                    rep.vid = KD::vid(r);
                    rep.va = addr(r);
                    KD::vset(r, v2);
                    rep.wrote = Some(v2);
                };
                match msub {
                    0 => {
                        let r = e.or_insert(val);
                        through(r, &mut rep);
                    }
                    1 => {
                        let r = e.or_insert_with(|| {
                            tl::tick(Cb::Closure);
                            runs += 1;
                            val
                        });
                        through(r, &mut rep);
                    }
                    2 => {
                        let r = e.or_insert_with_key(|kk| {
                            tl::tick(Cb::Closure);
                            runs += 1;
                            seen_key = Some((KD::kraw(kk), KD::kid(kk)));
                            val
                        });
                        through(r, &mut rep);
                    }
                    3 => {
                        drop(val);
                        let r = e.or_default();
                        through(r, &mut rep);
                    }
                    4 => {
                        let r = e
                            .and_modify(|x| {
                                tl::tick(Cb::Closure);
                                runs += 1;
                                modify_addr = addr(x);
                                KD::vset(x, KD::vnorm(KD::vval(x) ^ 0x0020_0000));
                            })
                            .or_insert(val);
                        through(r, &mut rep);
                    }
                    5 => {
                        let kk = e.key();
                        rep.kraw = Some(KD::kraw(kk));
                        rep.kid = KD::kid(kk);
                        rep.ka = addr(kk);
                        drop(val);
                    }
                    _ => match e {
                        Entry::Occupied(mut o) => match msub {
                            10 => {
                                let kk = o.key();
                                rep.kraw = Some(KD::kraw(kk));
                                rep.kid = KD::kid(kk);
                                rep.ka = addr(kk);
                                drop(val);
                            }
                            11 => {
                                let r = o.get();
                                rep.val = Some(KD::vval(r));
                                rep.vid = KD::vid(r);
                                rep.va = addr(r);
                                drop(val);
                            }
                            12 => {
                                let r = o.get_mut();
                                through(r, &mut rep);
                                drop(val);
                            }
                            13 => {
                                let old = o.insert(val);
                                rep.out_val = Some(KD::vval(&old));
                                rep.out_vid = KD::vid(&old);
                                rep.inserted_vid = vid;
                            }
                            14 => {
                                let old = o.remove();
                                rep.out_val = Some(KD::vval(&old));
                                rep.out_vid = KD::vid(&old);
                                drop(val);
                            }
                            15 => {
                                let (kk, old) = o.remove_entry();
                                rep.kraw = Some(KD::kraw(&kk));
                                rep.kid = KD::kid(&kk);
                                rep.out_val = Some(KD::vval(&old));
                                rep.out_vid = KD::vid(&old);
                                drop(val);
                            }
                            16 => {
                                let r = o.into_mut();
                                through(r, &mut rep);
                                drop(val);
                            }
                            _ => {
                                // vacant method chosen but the library says occupied
                                drop(val);
                            }
                        },
                        Entry::Vacant(vac) => match msub {
                            20 => {
                                let kk = vac.key();
                                rep.kraw = Some(KD::kraw(kk));
                                rep.kid = KD::kid(kk);
                                drop(val);
                            }
                            21 => {
                                let kk = vac.into_key();
                                rep.kraw = Some(KD::kraw(&kk));
                                rep.kid = KD::kid(&kk);
                                drop(val);
                            }
                            22 => {
                                let r = vac.insert(val);
                                rep.inserted_vid = KD::vid(r);
                                through(r, &mut rep);
                            }
                            _ => {
                                drop(val);
                            }
                        },
                    },
                }
                rep
            });
            cx.log(|| format!("entry[{w}]({k}).{name} -> {:?} runs={runs}   (model: present={:?} full={full})", r.as_ref().map(|r| (r.occupied, r.val, r.out_val, r.kraw)), present.map(|e| e.val)));
            let inserts_if_vacant = matches!(msub, 0 | 1 | 2 | 3 | 4 | 22);
            match &r {
                Ok(rep) => {
                    // whatever Eq answers: a handed-out `&mut V` refers to a live element stored
                    // inside the map (it is written through right away)
                    if rep.val.is_some() {
                        let p_mem = PS::of(Prop::C17).and(Prop::C02).and(Prop::C11);
                        cx.chk(p_mem, rep.live, "dead-ref", || format!("{name}: the returned reference does not refer to a live element"));
                        cx.chk(PS::of(Prop::C17), slot.c.contains(rep.va, std::mem::size_of::<KD::V>()), "addr", || format!("{name}: the returned reference points outside the map"));
                    }
                    if modify_addr != 0 {
                        cx.bump(S::addr_checks);
                        cx.chk(P_ADDR, slot.c.contains(modify_addr, std::mem::size_of::<KD::V>()), "addr", || "and_modify handed its closure a reference that points outside the map".into());
                    }
                    cx.chk(P11, rep.occupied == Some(present.is_some()), "classification", || format!("entry({k}) is {:?} but the key is {}", rep.occupied.map(|o| if o { "Occupied" } else { "Vacant" }), if present.is_some() { "present" } else { "absent" }));
                    // closures
                    match msub {
                        1 | 2 => {
                            let want = if present.is_some() { 0 } else { 1 };
                            cx.chk(P11, runs == want, "closure-count", || format!("{name}: closure ran {runs} time(s), expected {want}"));
                            if msub == 2 {
                                if let Some((sr, sid)) = seen_key {
                                    cx.chk(P11, sr == k && (!KD::IDENT || sid == kid), "closure-key", || format!("or_insert_with_key passed key {sr} (#{sid}) to the closure, the entry key is {k} (#{kid})"));
                                }
                            }
                            cx.add(S::entry_closure_runs, runs as u64);
                        }
                        4 => {
                            let want = if present.is_some() { 1 } else { 0 };
                            cx.chk(P11, runs == want, "closure-count", || format!("and_modify: closure ran {runs} time(s), expected {want}"));
                            cx.add(S::entry_closure_runs, runs as u64);
                        }
                        _ => {}
                    }
                    if let Some(e) = present {
                        // occupied behaviour
                        let cur = if msub == 4 { KD::vnorm(e.val ^ 0x0020_0000) } else { e.val };
                        if let Some(got) = rep.val {
                            cx.chk(P11, got == cur && (!KD::IDENT || rep.vid == e.vid), "value-ref", || format!("{name}: reference holds {got} (#{}) but the entry's current value is {cur} (#{})", rep.vid, e.vid));
                            cx.bump(S::addr_checks);
                            cx.chk(P_ADDR.and(Prop::C11), slot.c.contains(rep.va, std::mem::size_of::<KD::V>()), "addr", || format!("{name}: returned reference points outside the map"));
                        }
                        if let Some(kr) = rep.kraw {
                            if rep.ka != 0 {
                                // the key of an occupied entry is the stored element
                                cx.bump(S::addr_checks);
                                cx.chk(P_ADDR, slot.c.contains(rep.ka, std::mem::size_of::<KD::K>()), "addr", || format!("{name}: the key reference of an occupied entry points outside the map"));
                            }
                            cx.chk(P11, kr == k, "key", || format!("{name}: exposes key {kr}, expected {k}"));
                            if KD::IDENT && msub != 5 || KD::IDENT && msub == 5 {
                                cx.chk(P12.and(Prop::C11), rep.kid == e.kid, "exposed-key-identity", || format!("{name}: exposes key object #{}, stored is #{}", rep.kid, e.kid));
                            }
                        }
                        let mut ne = e;
                        if msub == 4 {
                            ne.val = cur;
                        }
                        if let Some(wv) = rep.wrote {
                            ne.val = wv;
                        }
                        match msub {
                            13 => {
                                cx.chk(P11, rep.out_val == Some(e.val) && (!KD::IDENT || rep.out_vid == e.vid), "return", || format!("occupied.insert returned {:?}, the old value was {}", rep.out_val, e.val));
                                ne = Ent { kid: e.kid, vid, val: v };
                                slot.model.insert(k, ne);
                                mutated = true;
                            }
                            14 | 15 => {
                                cx.chk(P11, rep.out_val == Some(e.val) && (!KD::IDENT || rep.out_vid == e.vid), "return", || format!("{name} returned {:?}, the stored value was {}", rep.out_val, e.val));
                                if slot.order.last() != Some(&k) {
                                    cx.bump(S::entry_occ_remove_nonlast);
                                    cx.bump(S::swap_removals);
                                    slot.swapped = true;
                                }
                                cx.bump(S::removals);
                                slot.model.remove(&k);
                                mutated = true;
                            }
                            _ => {
                                slot.model.insert(k, ne);
                                if ne != e {
                                    mutated = true;
                                }
                            }
                        }
                        if full {
                            cx.bump(S::dup_key_on_full);
                        }
                        cx.bump(S::dup_key_supplied);
                        self.dup_paths |= 1 << OP_ENTRY;
                    } else {
                        // vacant behaviour
                        if let Some(kr) = rep.kraw {
                            cx.chk(P11, kr == k && (!KD::IDENT || rep.kid == kid), "key", || format!("{name}: exposes key {kr} (#{}), the supplied key is {k} (#{kid})", rep.kid));
                        }
                        if inserts_if_vacant {
                            if full {
                                cx.chk(P11.and(Prop::C03), false, "overflow-not-rejected", || format!("{name} of a new key on a full map returned normally"));
                            }
                            let want = if msub == 3 { KD::vnorm(0) } else { v };
                            if let Some(got) = rep.val {
                                cx.chk(P11, got == want && (!KD::IDENT || msub == 3 || rep.vid == vid), "value-ref", || format!("{name}: reference holds {got}, the inserted value is {want}"));
                                cx.bump(S::addr_checks);
                                cx.chk(P_ADDR.and(Prop::C11), slot.c.contains(rep.va, std::mem::size_of::<KD::V>()), "addr", || format!("{name}: returned reference points outside the map"));
                            }
                            let nvid = if rep.vid != NOID { rep.vid } else { vid };
                            slot.model.insert(k, Ent { kid, vid: nvid, val: rep.wrote.unwrap_or(want) });
                            cx.bump(S::inserts_new);
                            if slot.model.len() == N {
                                cx.bump(S::entry_vacant_fill_last);
                                cx.bump(S::reached_full);
                            }
                            if slot.swapped {
                                cx.bump(S::insert_after_swap);
                            }
                            mutated = true;
                        }
                    }
                }
                Err(p) if *p != Pk::Injected && present.is_none() && full && inserts_if_vacant => {
                    cx.bump(S::rejected_inserts);
                    cx.bump(S::lib_panics);
                    self.lib_panicked = true;
                    rejected = true;
                    if matches!(msub, 1 | 2) {
                        cx.chk(P11, runs <= 1, "closure-count", || format!("{name}: closure ran {runs} times"));
                    }
                }
                Err(p) => {
                    fault = unexpected(cx, liar, P11.and(Prop::C03), p);
                    self.lib_panicked = true;
                    if fault && !liar && tl::fuse_fired() == Some(Cb::Closure) && matches!(msub, 1 | 2) && present.is_none() {
                        // The injected panic came out of the user's `default` closure of a vacant
                        // entry: no value was ever produced. The direct-operation equivalent
                        // (`if !contains_key(k) { let v = f(); insert(k, v) }`) leaves the map
                        // exactly as it was, so must the entry path.
                        let post = Self::observe(&slot.c).unwrap_or_default();
                        let same = post.len() == slot.model.len() && slot.c.m.len() == slot.model.len() && post.iter().all(|o| slot.model.get(&o.raw).map(|e| e.val == o.val && (!KD::IDENT || (e.kid == o.kid && e.vid == o.vid))).unwrap_or(false));
                        cx.bump(S::entry_closure_panics);
                        cx.chk(P11, same, "closure-panic", || format!("{name}: the closure of a vacant entry panicked, yet the map changed (len {} -> {}, iteration yields {} entries)", slot.model.len(), slot.c.m.len(), post.len()));
                    }
                }
            }
            if mutated {
                cx.bump(S::mutations);
                if self.lib_panicked {
                    cx.bump(S::mutation_after_lib_panic);
                }
            }
            self.groups |= 1;
        }
        self.note_fault(fault, true);
        if mutated {
            self.note_clone_mutation(w);
        }
        let st = if rejected { P11.and(Prop::C03) } else { P11 };
        self.after(st, P12.and(Prop::C11));
    }
}
