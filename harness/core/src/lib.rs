//! Facade: one `run_case` over all engines.
#![allow(clippy::all)]
pub use mmv_base::{capacity_of, caps_for_kind, case, ctx, fmtutil, kinds, plan, tl};
pub mod dispatch;
pub use mmv_maphist as maphist;
pub use mmv_pairs as pairs;
pub use mmv_sethist as sethist;
