pub fn hi(){}
