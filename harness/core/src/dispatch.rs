//! engine -> engine crate (each engine crate monomorphises its own (kind, capacity) grid).

use mmv_base::case::{Case, Engine};
use mmv_base::ctx::Ctx;
pub use mmv_base::{capacity_of, caps_for_kind};

pub fn run_case(case: &Case, cx: &mut Ctx) {
    match case.engine {
        Engine::MapHist => mmv_maphist::run_dyn(case, cx),
        Engine::SetHist => mmv_sethist::run_dyn(case, cx),
        Engine::SetAlg | Engine::MapEq => mmv_pairs::run_dyn(case, cx),
        Engine::Wide => mmv_maphist::wide::run(case, cx),
        Engine::Slices => mmv_maphist::slices::run(case, cx),
        _ => {}
    }
}

/// Name of the operation a code byte decodes to for (engine, prop); None for engines whose
/// decoding does not depend on a weight table.
pub fn op_name(engine: Engine, prop: mmv_base::case::Prop, code: u8) -> Option<&'static str> {
    match engine {
        Engine::MapHist => Some(mmv_maphist::OP_NAMES[mmv_maphist::pick(&mmv_maphist::weights(prop), code)]),
        Engine::SetHist => Some(mmv_sethist::OP_NAMES[mmv_sethist::pick(&mmv_sethist::weights(prop), code)]),
        _ => None,
    }
}

/// Smallest code byte that decodes to the named operation for (engine, prop).
pub fn op_code(engine: Engine, prop: mmv_base::case::Prop, name: &str) -> Option<u8> {
    (0..=255u8).find(|c| op_name(engine, prop, *c) == Some(name))
}

/// Resolve the by-name op lines of a loaded case file (after `case.prop` has been set).
pub fn resolve_names(case: &mut Case) -> Result<(), String> {
    let named = std::mem::take(&mut case.named);
    for (i, name) in named {
        match op_code(case.engine, case.prop, &name) {
            Some(c) => case.ops[i][0] = c,
            None => return Err(format!("operation '{name}' cannot be generated for {} / {}", case.engine.name(), case.prop.name())),
        }
    }
    Ok(())
}

/// Text form of a case with op lines by name where the engine has named operations.
pub fn to_text_named(case: &Case, comments: &[String]) -> String {
    let t = case.to_text(comments);
    let mut out = String::with_capacity(t.len() + 64);
    for line in t.lines() {
        let mut done = false;
        if let Some(rest) = line.strip_prefix("op ") {
            let mut it = rest.split_whitespace();
            if let Some(Ok(code)) = it.next().map(|x| x.parse::<u8>()) {
                if let Some(n) = op_name(case.engine, case.prop, code) {
                    out.push_str(&format!("op {n} {}\n", it.collect::<Vec<_>>().join(" ")));
                    done = true;
                }
            }
        }
        if !done {
            out.push_str(line);
            out.push('\n');
        }
    }
    out
}
