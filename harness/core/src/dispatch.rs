//! engine -> engine crate (each engine crate monomorphises its own (kind, capacity) grid).

use mmv_base::case::{Case, Engine};
use mmv_base::ctx::Ctx;
pub use mmv_base::{capacity_of, caps_for_kind};

pub fn run_case(case: &Case, cx: &mut Ctx) {
    match case.engine {
        Engine::MapHist => mmv_maphist::run_dyn(case, cx),
        Engine::SetHist => mmv_sethist::run_dyn(case, cx),
        Engine::SetAlg | Engine::MapEq => mmv_pairs::run_dyn(case, cx),
        _ => {}
    }
}
