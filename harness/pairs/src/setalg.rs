//! `setalg`: pairs of sets (each built by its own insert/remove history) and every algebra
//! operation stepped with size_hint / fold / Debug at every prefix (C08), predicates, set
//! equality (C14), allocation (C06), lying Eq (C17), iterator Debug (C19).

use micromap::Set;
use mmv_base::case::{scale, Case, Prop, PS};
use mmv_base::ctx::{Ctx, S};
use mmv_base::fmtutil::{fmt_debug, split_top};
use mmv_base::kinds::Kind;
use mmv_base::probe::{check_ordered, probe, ProbeOut, NPROBES};
use mmv_base::tl::{self, Caged, Pk};
use std::collections::BTreeMap;

const P08: PS = PS::of(Prop::C08);
const P14: PS = PS::of(Prop::C14);
const P17: PS = PS::of(Prop::C17);
const P19: PS = PS::of(Prop::C19);
const P06: PS = PS::of(Prop::C06);

#[derive(Clone, Copy, Debug, PartialEq, Eq)]
pub struct Y {
    pub raw: u8,
    pub kid: u32,
    pub ka: usize,
}

#[inline]
fn addr<T>(r: &T) -> usize {
    tl::addr_of(r)
}

fn lib<KD: Kind, R>(cx: &mut Ctx, f: impl FnOnce() -> R) -> Result<R, Pk> {
    let r = tl::lib(f);
    if KD::NOALLOC && r.is_ok() {
        cx.bump(S::alloc_checks);
        let n = tl::last_allocs();
        cx.chk(P06, n == 0, "alloc", || format!("{n} allocator request(s) during a non-panicking call"));
    }
    r
}

fn observe<KD: Kind, const N: usize>(s: &Set<KD::K, N>) -> Vec<Y> {
    tl::quiet(|| s.iter().map(|k| Y { raw: KD::kraw(k), kid: KD::kid(k), ka: addr(k) }).collect::<Vec<_>>()).unwrap_or_default()
}

/// Build one operand from the ops addressed to it. Returns the model (raw -> stored id).
fn build<KD: Kind, const N: usize>(s: &mut Set<KD::K, N>, ops: &[[u8; 4]], univ: u8, side: u8) -> (BTreeMap<u8, u32>, bool) {
    let mut model: BTreeMap<u8, u32> = BTreeMap::new();
    let mut swapped = false;
    for op in ops {
        if (op[3] >> 7) != side {
            continue;
        }
        let k = scale(op[1], univ as usize) as u8;
        let kind = scale(op[0], 10);
        let _ = tl::quiet(|| {
            if kind < 7 {
                if model.contains_key(&k) || model.len() < N {
                    let key = KD::key(k);
                    let id = KD::kid(&key);
                    if s.insert(key) {
                        model.insert(k, id);
                    }
                }
            } else {
                let qo = KD::qo(k);
                let last = s.iter().last().map(|x| KD::kraw(x));
                if s.remove::<KD::Q>(KD::q(&qo)) {
                    model.remove(&k);
                    if last != Some(k) {
                        swapped = true;
                    }
                }
            }
        });
    }
    (model, swapped)
}

/// Step one lazy iterator, checking at every prefix. `ext` turns an item into a `Y`.
#[allow(clippy::too_many_arguments)]
fn check_iter<KD: Kind, I, T>(cx: &mut Ctx, liar: bool, name: &str, mk: impl Fn() -> I, ext: impl Fn(T) -> Y + Copy, expect: &[u8], from_left: Option<(&BTreeMap<u8, u32>, &dyn Fn(usize) -> bool)>, bound: usize, salt: usize)
where
    I: Iterator<Item = T> + Clone + std::fmt::Debug,
{
    let want_fmt = !liar && (cx.armed == Prop::C19 || cx.armed == Prop::C06);
    // iterators that yield the left operand's own elements must also *print* those: while such
    // an iterator is rendered, a tracked key's Debug shows which object it is
    let show_ids = KD::TRACKED && from_left.is_some() && want_fmt;
    struct IdGuard;
    impl Drop for IdGuard {
        fn drop(&mut self) {
            tl::debug_ids(false);
        }
    }
    let _guard = IdGuard;
    tl::debug_ids(show_ids);
    let mut it = match lib::<KD, _>(cx, || mk()) {
        Ok(i) => i,
        Err(p) => {
            if !liar && p != Pk::Injected {
                cx.chk(P08, false, "unexpected-panic", || format!("{name}: constructing the iterator panicked: {}", p.name()));
            }
            return;
        }
    };
    let mut ys: Vec<Y> = Vec::with_capacity(bound + 4);
    let mut hints: Vec<(usize, Option<usize>)> = Vec::with_capacity(bound + 4);
    let mut folds: Vec<Option<Vec<Y>>> = Vec::with_capacity(bound + 4);
    let mut dbgs: Vec<Option<String>> = Vec::with_capacity(bound + 4);
    let mut probes: Vec<(usize, ProbeOut<Y>)> = Vec::with_capacity(NPROBES * (bound + 4));
    loop {
        hints.push(mmv_base::probe::size_hint_of(&it));
        if !liar {
            // nth / last / fold / count / skip on clones taken at this prefix
            let at = ys.len();
            for which in 0..NPROBES {
                probes.push((at, probe(cx, KD::NOALLOC, it.clone(), which, (salt + at + which) % 4, bound, ext)));
            }
        }
        let c = it.clone();
        let buf: Vec<Y> = Vec::with_capacity(bound + 8);
        let folded = lib::<KD, _>(cx, move || {
            c.fold(buf, |mut v, x| {
                if v.len() < v.capacity() {
                    v.push(ext(x));
                }
                v
            })
        });
        folds.push(folded.ok());
        dbgs.push(if want_fmt { fmt_debug::<KD>(cx, &it, false).ok() } else { None });
        cx.bump(S::alg_prefix_checks);
        match lib::<KD, _>(cx, || it.next()) {
            Ok(Some(x)) => ys.push(ext(x)),
            Ok(None) => break,
            Err(p) => {
                if !liar && p != Pk::Injected {
                    cx.chk(P08, false, "unexpected-panic", || format!("{name}: next() panicked: {}", p.name()));
                }
                return;
            }
        }
        if ys.len() > bound + 2 {
            if !liar {
                cx.chk(P08, false, "overlong", || format!("{name} yields more items than both operands hold"));
            }
            break;
        }
    }
    tl::debug_ids(false);
    if liar {
        return;
    }
    let total = ys.len();
    // the yielded *list*: no repeats, exactly the mathematical result
    for (i, y) in ys.iter().enumerate() {
        cx.chk(P08, !ys[..i].iter().any(|z| z.raw == y.raw), "repeat", || format!("{name} yields element {} twice", y.raw));
    }
    let mut got: Vec<u8> = ys.iter().map(|y| y.raw).collect();
    got.sort_unstable();
    got.dedup();
    cx.chk(P08, got == expect, "result", || format!("{name} yields {:?}, the mathematical result is {expect:?}", ys.iter().map(|y| y.raw).collect::<Vec<_>>()));
    for (i, h) in hints.iter().enumerate() {
        let rem = total.saturating_sub(i);
        let ok = h.0 <= rem && h.1.map(|u| rem <= u).unwrap_or(true);
        cx.chk(P08, ok, "size_hint", || format!("{name} after {i} of {total} items: size_hint {h:?} does not bracket the {rem} items still to come"));
    }
    for (i, f) in folds.iter().enumerate() {
        match f {
            Some(v) => {
                let rest = &ys[i.min(total)..];
                cx.chk(P08, v.as_slice() == rest, "fold-vs-next", || {
                    format!("{name} after {i} items: fold visits {:?} but stepping with next yields {:?}", v.iter().map(|y| y.raw).collect::<Vec<_>>(), rest.iter().map(|y| y.raw).collect::<Vec<_>>())
                });
            }
            None => {
                cx.chk(P08, false, "fold-vs-next", || format!("{name} after {i} items: fold panicked"));
            }
        }
    }
    for (at, po) in &probes {
        let r = check_ordered(po, &ys[(*at).min(total)..], false);
        cx.chk(P08, r.is_ok(), "adaptor", || format!("{name} after {at} of {total} items: {}", r.clone().err().unwrap_or_default()));
    }
    if let Some((ids, inside)) = from_left {
        for y in &ys {
            cx.bump(S::addr_checks);
            let ok_id = !KD::IDENT || ids.get(&y.raw) == Some(&y.kid);
            cx.chk(P08.and(Prop::C06), inside(y.ka) && ok_id, "left-reference", || format!("{name} yields a reference (element {}) that is not the left operand's own element", y.raw));
        }
    }
    for (i, d) in dbgs.iter().enumerate() {
        if let Some(out) = d {
            cx.bump(S::fmt_calls);
            if i > 0 && i < total {
                cx.bump(S::fmt_iter_partial);
            }
            let ok_shape = out.starts_with('[') && out.ends_with(']');
            let mut g: Vec<String> = if ok_shape { split_top(&out[1..out.len() - 1]) } else { vec![] };
            let mut w: Vec<String> = ys[i.min(total)..].iter().map(|y| if show_ids { format!("k{}#{}", y.raw, y.kid) } else { KD::kdbg(y.raw) }).collect();
            g.sort();
            w.sort();
            cx.chk(P19, ok_shape && g == w, "iterator-debug", || format!("Debug of {name} after {i} items prints {out}, the items not yet yielded are {w:?}"));
        }
    }
}

/// The library's own lazy iterators as the source of its own bulk constructors: the items of
/// one algebra iterator are cloned into a `Set` of `C` slots through `collect` and through
/// `extend`. Whatever a constructor takes from the source's `size_hint`, the result must stay
/// inside its capacity (and, with a lawful `==`, hold exactly the mathematical result or reject
/// it when it does not fit).
fn collect_into<'a, KD: Kind, I, const C: usize>(cx: &mut Ctx, liar: bool, name: &str, mk: impl Fn() -> I, expect: &[u8])
where
    I: Iterator<Item = &'a KD::K>,
    KD::K: 'a,
{
    let mem = P17.and(Prop::C08);
    for via in 0..2 {
        let how = if via == 0 { "collect" } else { "extend" };
        let mut t: Box<Caged<Set<KD::K, C>>> = Box::new(Caged::new(Set::new()));
        let r = if via == 0 {
            match lib::<KD, _>(cx, || mk().cloned().collect::<Set<KD::K, C>>()) {
                Ok(s) => {
                    *t = Caged::new(s);
                    Ok(())
                }
                Err(p) => Err(p),
            }
        } else {
            let tm = &mut t.m;
            lib::<KD, _>(cx, || tm.extend(mk().cloned()))
        };
        cx.bump(S::bulk_calls);
        cx.bump(S::bulk_lib_sources);
        let (len, cap) = (t.m.len(), t.m.capacity());
        cx.chk(mem, len <= cap && cap == C, "len-vs-capacity", || format!("{how} of {name} into a set of {C} slots: len()={len}, capacity()={cap}"));
        cx.chk(mem, t.intact(), "canary", || format!("{how} of {name} into a set of {C} slots wrote outside the set"));
        if len > cap || !t.intact() {
            // nothing about this value can be trusted any more
            std::mem::forget(t);
            return;
        }
        let obs = tl::quiet(|| t.m.iter().map(|k| (KD::kraw(k), KD::klive(k))).collect::<Vec<_>>()).unwrap_or_default();
        cx.chk(mem, obs.len() == len && obs.iter().all(|o| o.1), "len-vs-iter", || format!("{how} of {name} into a set of {C} slots: len()={len} but iteration yields {} live elements", obs.iter().filter(|o| o.1).count()));
        if !liar {
            match &r {
                Ok(()) => {
                    let mut got: Vec<u8> = obs.iter().map(|o| o.0).collect();
                    got.sort_unstable();
                    cx.chk(P08.and(Prop::C16), got == expect, "collected-result", || format!("{how} of {name} into a set of {C} slots holds {got:?}, the mathematical result is {expect:?}"));
                }
                Err(p) if *p != Pk::Injected => {
                    cx.bump(S::lib_panics);
                    cx.chk(P08.and(Prop::C16), expect.len() > C, "spurious-overflow", || format!("{how} of {name} ({} elements) into a set of {C} slots panicked: {}", expect.len(), p.name()));
                }
                Err(_) => {}
            }
        }
        let _ = tl::lib(move || drop(t));
    }
}

pub fn run<KD: Kind, const N: usize, const M: usize>(case: &Case, cx: &mut Ctx) {
    tl::ledger_reset();
    tl::liar_off();
    tl::fuse_arm(-1);
    cx.engine = "setalg";
    cx.cur_op = "setup";
    let univ = case.univ.max(1).min(12);
    let liar = case.prop == Prop::C17 && KD::TRACKED;
    let mut l: Box<Caged<Set<KD::K, N>>> = Box::new(Caged::new(Set::new()));
    let mut r: Box<Caged<Set<KD::K, M>>> = Box::new(Caged::new(Set::new()));
    let (ml, swl) = build::<KD, N>(&mut l.m, &case.ops, univ, 0);
    let (mr, swr) = build::<KD, M>(&mut r.m, &case.ops, univ, 1);
    let ol = observe::<KD, N>(&l.m);
    let or = observe::<KD, M>(&r.m);
    // set-up verification: operands hold what was intended, else discard (not our property)
    let okl = ol.len() == ml.len() && ol.iter().all(|y| ml.get(&y.raw) == Some(&y.kid)) && l.m.len() == ml.len();
    let okr = or.len() == mr.len() && or.iter().all(|y| mr.get(&y.raw) == Some(&y.kid)) && r.m.len() == mr.len();
    if !okl || !okr {
        cx.discard = true;
        cx.bump(S::discarded_setups);
        drop(l);
        drop(r);
        return;
    }
    cx.log(|| format!("left  Set<_, {N}> = {:?}{}", ol.iter().map(|y| y.raw).collect::<Vec<_>>(), if swl { "  (order made by swap-removal)" } else { "" }));
    cx.log(|| format!("right Set<_, {M}> = {:?}{}", or.iter().map(|y| y.raw).collect::<Vec<_>>(), if swr { "  (order made by swap-removal)" } else { "" }));
    cx.bump(S::alg_pairs);
    let sl: Vec<u8> = ml.keys().copied().collect();
    let sr: Vec<u8> = mr.keys().copied().collect();
    let inter: Vec<u8> = sl.iter().filter(|k| mr.contains_key(k)).copied().collect();
    let diff: Vec<u8> = sl.iter().filter(|k| !mr.contains_key(k)).copied().collect();
    let rdiff: Vec<u8> = sr.iter().filter(|k| !ml.contains_key(k)).copied().collect();
    let mut uni: Vec<u8> = sl.iter().chain(sr.iter()).copied().collect();
    uni.sort_unstable();
    uni.dedup();
    let mut sym: Vec<u8> = diff.iter().chain(rdiff.iter()).copied().collect();
    sym.sort_unstable();
    if !inter.is_empty() && (!diff.is_empty() && !rdiff.is_empty() || (sl.len() != sr.len())) {
        cx.bump(S::alg_proper_overlap);
    }
    if sl == sr && (ol.iter().map(|y| y.raw).collect::<Vec<_>>() != or.iter().map(|y| y.raw).collect::<Vec<_>>() || N != M) && !sl.is_empty() {
        cx.bump(S::eq_equal_diff_order);
    }
    if (sl.len() as i64 - sr.len() as i64).abs() <= 1 && sym.len() >= 1 && sym.len() <= 2 {
        cx.bump(S::eq_near_miss);
    }
    if liar {
        let bits: Vec<u8> = case.ops.iter().flat_map(|o| [o[2], o[1]]).collect();
        tl::liar_set(1 + case.mode % (tl::LIAR_MODES - 1), 2 + (case.mode >> 4), bits);
    }
    let ext = |k: &KD::K| Y { raw: KD::kraw(k), kid: KD::kid(k), ka: addr(k) };
    let bound = N + M;
    let salt = case.mode as usize;
    let lc: &Caged<Set<KD::K, N>> = &l;
    let rc: &Caged<Set<KD::K, M>> = &r;
    let inside_l = |a: usize| lc.contains(a, std::mem::size_of::<KD::K>());
    cx.cur_op = "union";
    check_iter::<KD, _, _>(cx, liar, "union", || lc.m.union(&rc.m), ext, &uni, None, bound, salt);
    cx.cur_op = "intersection";
    check_iter::<KD, _, _>(cx, liar, "intersection", || lc.m.intersection(&rc.m), ext, &inter, Some((&ml, &inside_l)), bound, salt);
    cx.cur_op = "difference";
    check_iter::<KD, _, _>(cx, liar, "difference", || lc.m.difference(&rc.m), ext, &diff, Some((&ml, &inside_l)), bound, salt);
    cx.cur_op = "symmetric_difference";
    check_iter::<KD, _, _>(cx, liar, "symmetric_difference", || lc.m.symmetric_difference(&rc.m), ext, &sym, None, bound, salt);
    // the same object on both sides (a set against itself): a "same object" shortcut must still
    // give the mathematical answer, for empty sets too
    cx.cur_op = "self-pair";
    {
        let none: Vec<u8> = Vec::new();
        check_iter::<KD, _, _>(cx, liar, "left.union(left)", || lc.m.union(&lc.m), ext, &sl, None, bound, salt);
        check_iter::<KD, _, _>(cx, liar, "left.intersection(left)", || lc.m.intersection(&lc.m), ext, &sl, Some((&ml, &inside_l)), bound, salt);
        check_iter::<KD, _, _>(cx, liar, "left.difference(left)", || lc.m.difference(&lc.m), ext, &none, Some((&ml, &inside_l)), bound, salt);
        check_iter::<KD, _, _>(cx, liar, "left.symmetric_difference(left)", || lc.m.symmetric_difference(&lc.m), ext, &none, None, bound, salt);
        let selfpreds: [(&str, Result<bool, Pk>, bool); 3] = [
            ("left.is_subset(left)", lib::<KD, _>(cx, || lc.m.is_subset(&lc.m)), true),
            ("left.is_superset(left)", lib::<KD, _>(cx, || lc.m.is_superset(&lc.m)), true),
            ("left.is_disjoint(left)", lib::<KD, _>(cx, || lc.m.is_disjoint(&lc.m)), sl.is_empty()),
        ];
        if !liar {
            for (name, got, want) in selfpreds.iter() {
                cx.chk(P08, *got == Ok(*want), "predicate", || format!("{name} gives {got:?} for {sl:?}, the mathematical truth value is {want}"));
            }
        }
    }
    // difference_ref over an arena of fresh objects in the operands' iteration orders
    cx.cur_op = "difference_ref";
    {
        let arena_l: Vec<KD::K> = ol.iter().map(|y| KD::key(y.raw)).collect();
        let arena_r: Vec<KD::K> = or.iter().map(|y| KD::key(y.raw)).collect();
        let ids_l: BTreeMap<u8, u32> = arena_l.iter().map(|k| (KD::kraw(k), KD::kid(k))).collect();
        {
            let mut rl: Set<&KD::K, N> = Set::new();
            let mut rr: Set<&KD::K, M> = Set::new();
            let built = tl::quiet(|| {
                for k in &arena_l {
                    rl.insert(k);
                }
                for k in &arena_r {
                    rr.insert(k);
                }
            });
            if built.is_ok() && rl.len() == arena_l.len() && rr.len() == arena_r.len() {
                let lo = arena_l.as_ptr() as usize;
                let hi = lo + arena_l.len() * std::mem::size_of::<KD::K>();
                let in_arena = move |a: usize| a >= lo && a + std::mem::size_of::<KD::K>() <= hi || std::mem::size_of::<KD::K>() == 0;
                let extr = |k: &KD::K| Y { raw: KD::kraw(k), kid: KD::kid(k), ka: addr(k) };
                check_iter::<KD, _, _>(cx, liar, "difference_ref", || rl.difference_ref(&rr), extr, &diff, Some((&ids_l, &in_arena)), bound, salt);
            }
            let _ = tl::quiet(move || {
                drop(rl);
                drop(rr);
            });
        }
        let _ = tl::quiet(move || {
            drop(arena_l);
            drop(arena_r);
        });
    }
    // '-' operator
    cx.cur_op = "sub";
    match lib::<KD, _>(cx, || &lc.m - &rc.m) {
        Ok(d) => {
            let got = tl::quiet(|| d.iter().map(|k| KD::kraw(k)).collect::<Vec<u8>>()).unwrap_or_default();
            let mut sorted = got.clone();
            sorted.sort_unstable();
            if !liar {
                let norepeat = sorted.windows(2).all(|w| w[0] != w[1]);
                cx.chk(P08, norepeat && sorted == diff, "sub", || format!("&left - &right gives {got:?}, the mathematical difference is {diff:?}"));
                cx.chk(P08, d.capacity() == N, "sub", || "the result of '-' does not have the left operand's capacity".into());
            }
            let _ = tl::lib(move || drop(d));
        }
        Err(p) => {
            if !liar && p != Pk::Injected {
                cx.chk(P08, false, "unexpected-panic", || format!("'-' panicked: {}", p.name()));
            }
        }
    }
    // predicates
    cx.cur_op = "predicates";
    let preds: [(&str, Result<bool, Pk>, bool); 6] = [
        ("left.is_subset(right)", lib::<KD, _>(cx, || lc.m.is_subset(&rc.m)), diff.is_empty()),
        ("right.is_subset(left)", lib::<KD, _>(cx, || rc.m.is_subset(&lc.m)), rdiff.is_empty()),
        ("left.is_superset(right)", lib::<KD, _>(cx, || lc.m.is_superset(&rc.m)), rdiff.is_empty()),
        ("right.is_superset(left)", lib::<KD, _>(cx, || rc.m.is_superset(&lc.m)), diff.is_empty()),
        ("left.is_disjoint(right)", lib::<KD, _>(cx, || lc.m.is_disjoint(&rc.m)), inter.is_empty()),
        ("right.is_disjoint(left)", lib::<KD, _>(cx, || rc.m.is_disjoint(&lc.m)), inter.is_empty()),
    ];
    if !liar {
        for (name, got, want) in preds.iter() {
            cx.chk(P08, *got == Ok(*want), "predicate", || format!("{name} gives {got:?}, the mathematical truth value is {want}"));
        }
    }
    // the lazy iterators as sources of collect / extend into small sets
    cx.cur_op = "collect";
    if N + M > 0 && (liar || cx.armed != Prop::C19) {
        collect_into::<KD, _, 1>(cx, liar, "union", || lc.m.union(&rc.m), &uni);
        collect_into::<KD, _, 2>(cx, liar, "union", || lc.m.union(&rc.m), &uni);
        collect_into::<KD, _, 1>(cx, liar, "intersection", || lc.m.intersection(&rc.m), &inter);
        collect_into::<KD, _, 2>(cx, liar, "intersection", || lc.m.intersection(&rc.m), &inter);
        collect_into::<KD, _, 3>(cx, liar, "intersection", || lc.m.intersection(&rc.m), &inter);
        collect_into::<KD, _, 1>(cx, liar, "difference", || lc.m.difference(&rc.m), &diff);
        collect_into::<KD, _, 2>(cx, liar, "difference", || lc.m.difference(&rc.m), &diff);
        collect_into::<KD, _, 2>(cx, liar, "symmetric_difference", || lc.m.symmetric_difference(&rc.m), &sym);
        collect_into::<KD, _, 3>(cx, liar, "symmetric_difference", || lc.m.symmetric_difference(&rc.m), &sym);
    }
    // equality (C14 for sets)
    cx.cur_op = "eq";
    let want_eq = sl == sr;
    let eqs: [(&str, Result<bool, Pk>, bool); 6] = [
        ("left == right", lib::<KD, _>(cx, || lc.m == rc.m), want_eq),
        ("right == left", lib::<KD, _>(cx, || rc.m == lc.m), want_eq),
        ("left != right", lib::<KD, _>(cx, || lc.m != rc.m), !want_eq),
        ("right != left", lib::<KD, _>(cx, || rc.m != lc.m), !want_eq),
        ("left == left", lib::<KD, _>(cx, || lc.m == lc.m), true),
        ("right == right", lib::<KD, _>(cx, || rc.m == rc.m), true),
    ];
    cx.add(S::eq_calls, 6);
    if !liar {
        for (name, got, want) in eqs.iter() {
            cx.chk(P14, *got == Ok(*want), "equality", || format!("{name} gives {got:?} for {sl:?} vs {sr:?}"));
        }
    }
    tl::liar_off();
    // operands unchanged (also under a lying Eq: nothing may be written)
    cx.cur_op = "operands-after";
    let ol2 = observe::<KD, N>(&l.m);
    let or2 = observe::<KD, M>(&r.m);
    cx.chk(P08.and(Prop::C14).and(Prop::C17), ol2 == ol && or2 == or, "operands-changed", || "an operand's iteration sequence changed although only read-only operations ran".into());
    cx.chk(P17.and(Prop::C08), l.intact() && r.intact(), "canary", || "bytes outside an operand were overwritten".into());
    cx.chk(P17, l.m.len() <= N && r.m.len() <= M, "len-vs-capacity", || "len() exceeds capacity()".into());
    let _ = tl::lib(move || {
        drop(l);
        drop(r);
    });
    if KD::TRACKED {
        if let Some(v) = tl::ledger_first_violation() {
            cx.chk(P17.and(Prop::C08), false, "ledger", || v);
        }
        let left = tl::ledger_live_strict();
        cx.chk(P17.and(Prop::C08), left.is_empty(), "leak-at-end", || format!("{} object(s) never destroyed", left.len()));
    }
    if liar {
        cx.add(S::liar_lies, tl::liar_lies());
        cx.bump(S::mutations);
    }
}
