//! `mapeq`: extensional equality of maps (C14). Left map from a generated history; right map
//! either independent or derived from the left contents (permuted insertion order) and then
//! edited, so that equal-but-differently-laid-out pairs and near misses are the norm.

use micromap::Map;
use mmv_base::case::{scale, Case, Prop, PS};
use mmv_base::ctx::{Ctx, S};
use mmv_base::kinds::Kind;
use mmv_base::tl::{self, Caged, Pk};
use std::collections::BTreeMap;

const P14: PS = PS::of(Prop::C14);
const P06: PS = PS::of(Prop::C06);

fn lib<KD: Kind, R>(cx: &mut Ctx, f: impl FnOnce() -> R) -> Result<R, Pk> {
    let r = tl::lib(f);
    if KD::NOALLOC && r.is_ok() {
        cx.bump(S::alloc_checks);
        let n = tl::last_allocs();
        cx.chk(P06, n == 0, "alloc", || format!("{n} allocator request(s) during a non-panicking call"));
    }
    r
}

thread_local! {
    static WEIRD_EQ: std::cell::Cell<bool> = const { std::cell::Cell::new(true) };
    static WEIRD_CALLS: std::cell::Cell<u32> = const { std::cell::Cell::new(0) };
}
/// zero-sized value whose equality is decided by the case, not by its (absent) bytes
struct Zq;
impl PartialEq for Zq {
    fn eq(&self, _: &Zq) -> bool {
        WEIRD_CALLS.with(|c| c.set(c.get() + 1));
        WEIRD_EQ.with(|c| c.get())
    }
}
/// sized value whose equality ignores its bytes
struct Nq(#[allow(dead_code)] u32);
impl PartialEq for Nq {
    fn eq(&self, _: &Nq) -> bool {
        WEIRD_CALLS.with(|c| c.set(c.get() + 1));
        WEIRD_EQ.with(|c| c.get())
    }
}

/// "the same keys with equal values" where only the value type's own `==` says what equal means:
/// maps over the key sets of the two models, with values that are all equal or all unequal
/// whatever their bytes are (zero-sized and sized).
fn weird_values<const N: usize, const M: usize>(cx: &mut Ctx, ml: &BTreeMap<u8, u32>, mr: &BTreeMap<u8, u32>, mode: u8) {
    let flag = mode & 2 != 0;
    WEIRD_EQ.with(|c| c.set(flag));
    let same_keys = ml.keys().eq(mr.keys());
    let want = same_keys && (ml.is_empty() || flag);
    let mut za: Map<u8, Zq, N> = Map::new();
    let mut zb: Map<u8, Zq, M> = Map::new();
    let mut na: Map<u8, Nq, N> = Map::new();
    let mut nb: Map<u8, Nq, M> = Map::new();
    let built = tl::quiet(|| {
        for k in ml.keys() {
            za.insert(*k, Zq);
            // identical bytes when the values are "unequal", different bytes when they are "equal"
            na.insert(*k, Nq(7));
        }
        for k in mr.keys() {
            zb.insert(*k, Zq);
            nb.insert(*k, Nq(if flag { 8 + *k as u32 } else { 7 }));
        }
    });
    if built.is_err() || za.len() != ml.len() || zb.len() != mr.len() || na.len() != ml.len() || nb.len() != mr.len() {
        return;
    }
    WEIRD_CALLS.with(|c| c.set(0));
    let got = [tl::lib(|| za == zb), tl::lib(|| zb == za), tl::lib(|| na == nb), tl::lib(|| nb == na)];
    let names = ["zero-sized values, left == right", "zero-sized values, right == left", "sized values, left == right", "sized values, right == left"];
    for (g, n) in got.iter().zip(names) {
        cx.chk(P14, *g == Ok(want), "equality-by-value-eq", || format!("{n}: {g:?}, but the key sets are {} and the value type's == answers {flag} for every pair (keys {:?} vs {:?})", if same_keys { "the same" } else { "different" }, ml.keys().collect::<Vec<_>>(), mr.keys().collect::<Vec<_>>()));
    }
    let ne = tl::lib(|| za != zb);
    cx.chk(P14, ne == Ok(!want), "equality-by-value-eq", || format!("zero-sized values, left != right: {ne:?}, expected {}", !want));
    cx.add(S::eq_calls, 5);
    WEIRD_EQ.with(|c| c.set(true));
}

type Seq = Vec<(u8, u32, usize, usize)>;

fn observe<KD: Kind, const N: usize>(m: &Map<KD::K, KD::V, N>) -> Seq {
    tl::quiet(|| m.iter().map(|(k, v)| (KD::kraw(k), KD::vval(v), k as *const _ as usize, v as *const _ as usize)).collect::<Vec<_>>()).unwrap_or_default()
}

fn apply<KD: Kind, const N: usize>(m: &mut Map<KD::K, KD::V, N>, model: &mut BTreeMap<u8, u32>, op: &[u8; 4], univ: u8) {
    let k = scale(op[1], univ as usize) as u8;
    let v = KD::vnorm((op[2] % 3) as u32);
    let kind = scale(op[0], 10);
    let _ = tl::quiet(|| {
        if kind < 6 {
            if model.contains_key(&k) || model.len() < N {
                m.insert(KD::key(k), KD::val(v));
                model.insert(k, v);
            }
        } else if kind < 9 {
            let qo = KD::qo(k);
            if m.remove::<KD::Q>(KD::q(&qo)).is_some() {
                model.remove(&k);
            }
        } else {
            // detour: insert then remove (changes the slot order only)
            if !model.contains_key(&k) && model.len() < N {
                m.insert(KD::key(k), KD::val(v));
                let qo = KD::qo(k);
                let _ = m.remove::<KD::Q>(KD::q(&qo));
            }
        }
    });
}

pub fn run<KD: Kind, const N: usize, const M: usize>(case: &Case, cx: &mut Ctx) {
    tl::ledger_reset();
    tl::liar_off();
    tl::fuse_arm(-1);
    cx.engine = "mapeq";
    cx.cur_op = "setup";
    let univ = case.univ.max(1).min(12);
    let mut l: Box<Caged<Map<KD::K, KD::V, N>>> = Box::new(Caged::new(Map::new()));
    let mut r: Box<Caged<Map<KD::K, KD::V, M>>> = Box::new(Caged::new(Map::new()));
    let mut ml: BTreeMap<u8, u32> = BTreeMap::new();
    let mut mr: BTreeMap<u8, u32> = BTreeMap::new();
    for op in case.ops.iter().filter(|o| o[3] >> 7 == 0) {
        apply::<KD, N>(&mut l.m, &mut ml, op, univ);
    }
    let derived = case.mode & 1 == 1;
    if derived {
        // right := left's entries, inserted in a permuted order (as far as they fit)
        let mut ents: Vec<(u8, u32)> = ml.iter().map(|(k, v)| (*k, *v)).collect();
        let mut x = (case.mode as u32 >> 1) | 0x100;
        for i in (1..ents.len()).rev() {
            x = x.wrapping_mul(1103515245).wrapping_add(12345);
            let j = ((x >> 16) as usize) % (i + 1);
            ents.swap(i, j);
        }
        let _ = tl::quiet(|| {
            for (k, v) in ents {
                if mr.len() < M {
                    r.m.insert(KD::key(k), KD::val(v));
                    mr.insert(k, v);
                }
            }
        });
    }
    for op in case.ops.iter().filter(|o| o[3] >> 7 == 1) {
        apply::<KD, M>(&mut r.m, &mut mr, op, univ);
    }
    let ol = observe::<KD, N>(&l.m);
    let or = observe::<KD, M>(&r.m);
    let okl = ol.len() == ml.len() && ol.iter().all(|e| ml.get(&e.0) == Some(&e.1)) && l.m.len() == ml.len();
    let okr = or.len() == mr.len() && or.iter().all(|e| mr.get(&e.0) == Some(&e.1)) && r.m.len() == mr.len();
    if !okl || !okr {
        cx.discard = true;
        cx.bump(S::discarded_setups);
        return;
    }
    cx.log(|| format!("left  Map<_,_,{N}> = {:?}", ol.iter().map(|e| (e.0, e.1)).collect::<Vec<_>>()));
    cx.log(|| format!("right Map<_,_,{M}> = {:?}   ({})", or.iter().map(|e| (e.0, e.1)).collect::<Vec<_>>(), if derived { "derived from left, then edited" } else { "independent" }));
    let want = ml == mr;
    let order_l: Vec<u8> = ol.iter().map(|e| e.0).collect();
    let order_r: Vec<u8> = or.iter().map(|e| e.0).collect();
    if want && !ml.is_empty() && (order_l != order_r || N != M) {
        cx.bump(S::eq_equal_diff_order);
    }
    if !want {
        let only_l = ml.keys().filter(|k| !mr.contains_key(k)).count();
        let only_r = mr.keys().filter(|k| !ml.contains_key(k)).count();
        let diff_v = ml.iter().filter(|(k, v)| mr.get(k).map(|w| w != *v).unwrap_or(false)).count();
        if only_l + only_r + diff_v == 1 || (only_l == 1 && only_r == 1 && diff_v == 0) {
            cx.bump(S::eq_near_miss);
        }
    }
    cx.cur_op = "eq";
    let (lc, rc) = (&l, &r);
    let eqs: [(&str, Result<bool, Pk>, bool); 6] = [
        ("left == right", lib::<KD, _>(cx, || lc.m == rc.m), want),
        ("right == left", lib::<KD, _>(cx, || rc.m == lc.m), want),
        ("left != right", lib::<KD, _>(cx, || lc.m != rc.m), !want),
        ("right != left", lib::<KD, _>(cx, || rc.m != lc.m), !want),
        ("left == left", lib::<KD, _>(cx, || lc.m == lc.m), true),
        ("right == right", lib::<KD, _>(cx, || rc.m == rc.m), true),
    ];
    cx.add(S::eq_calls, 6);
    for (name, got, w) in eqs.iter() {
        cx.log(|| format!("{name} -> {got:?} (model {w})"));
        cx.chk(P14, *got == Ok(*w), "equality", || format!("{name} gives {got:?} for {ml:?} vs {mr:?}"));
    }
    weird_values::<N, M>(cx, &ml, &mr, case.mode);
    let ol2 = observe::<KD, N>(&l.m);
    let or2 = observe::<KD, M>(&r.m);
    cx.chk(P14, ol2 == ol && or2 == or, "operands-changed", || "comparison changed an operand".into());
    let _ = tl::quiet(move || {
        drop(l);
        drop(r);
    });
}
