//! Pair engines: `setalg` (C08, C14 for sets, C06, C17, C19) and `mapeq` (C14).
#![allow(clippy::all)]
pub mod mapeq;
pub mod setalg;

use mmv_base::case::{Case, Engine, CAPS2};
use mmv_base::ctx::Ctx;
use mmv_base::kinds::{Plain, Str, Tracked};

/// (N, M) for a pair case: indices into CAPS2.
pub fn caps2_of(case: &Case) -> (usize, usize) {
    (CAPS2[case.cap as usize % CAPS2.len()], CAPS2[case.cap2 as usize % CAPS2.len()])
}

macro_rules! by_pair {
    ($f:path, $kd:ty, $n:expr, $m:expr, $case:expr, $cx:expr, [$(($a:literal, $b:literal)),*]) => {
        match ($n, $m) {
            $(($a, $b) => { use $f as run_it; run_it::<$kd, $a, $b>($case, $cx) })*
            _ => unreachable!("capacity pair not compiled"),
        }
    };
}

macro_rules! all_pairs {
    ($f:path, $kd:ty, $n:expr, $m:expr, $case:expr, $cx:expr) => {
        by_pair!($f, $kd, $n, $m, $case, $cx, [
            (0,0),(0,1),(0,2),(0,3),(0,5),
            (1,0),(1,1),(1,2),(1,3),(1,5),
            (2,0),(2,1),(2,2),(2,3),(2,5),
            (3,0),(3,1),(3,2),(3,3),(3,5),
            (5,0),(5,1),(5,2),(5,3),(5,5)
        ])
    };
}

/// non-tracked kinds get a reduced grid: snap to the nearest compiled pair
fn snap(n: usize, m: usize) -> (usize, usize) {
    let s = |x: usize| if x == 0 { 0 } else if x <= 2 { 2 } else { 5 };
    (s(n), s(m))
}

pub fn run_dyn(case: &Case, cx: &mut Ctx) {
    let (n, m) = caps2_of(case);
    match (case.engine, case.kind % mmv_base::case::NKINDS) {
        (Engine::SetAlg, 0) => all_pairs!(setalg::run, Tracked, n, m, case, cx),
        (Engine::SetAlg, 2) => {
            let (n, m) = snap(n, m);
            by_pair!(setalg::run, Str, n, m, case, cx, [(0,0),(0,2),(0,5),(2,0),(2,2),(2,5),(5,0),(5,2),(5,5)])
        }
        (Engine::SetAlg, _) => {
            let (n, m) = snap(n, m);
            by_pair!(setalg::run, Plain, n, m, case, cx, [(0,0),(0,2),(0,5),(2,0),(2,2),(2,5),(5,0),(5,2),(5,5)])
        }
        (Engine::MapEq, 0) => all_pairs!(mapeq::run, Tracked, n, m, case, cx),
        (Engine::MapEq, _) => {
            let (n, m) = snap(n, m);
            by_pair!(mapeq::run, Plain, n, m, case, cx, [(0,0),(0,2),(0,5),(2,0),(2,2),(2,5),(5,0),(5,2),(5,5)])
        }
        _ => {}
    }
}
