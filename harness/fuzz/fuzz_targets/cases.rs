//! libFuzzer target: bytes -> Case (engine and armed property from the environment) ->
//! the same `run_case` and oracles as every other driver. On a violation the replay file is
//! written and the process aborts, so libFuzzer keeps the input as an artifact.
#![no_main]
use libfuzzer_sys::fuzz_target;
use mmv::case::{Case, Engine, Prop};
use mmv::ctx::Ctx;
use std::sync::OnceLock;

#[global_allocator]
static ALLOC: mmv::tl::CountingAlloc = mmv::tl::CountingAlloc;

struct Cfg {
    prop: Prop,
    engine: Engine,
    fault: bool,
}
static CFG: OnceLock<Cfg> = OnceLock::new();

fn cfg() -> &'static Cfg {
    CFG.get_or_init(|| {
        std::panic::set_hook(Box::new(|_| {}));
        let prop = std::env::var("VERIF_PROP").ok().and_then(|s| Prop::parse(&s)).unwrap_or(Prop::C01);
        let engine = std::env::var("VERIF_ENGINE").ok().and_then(|s| Engine::parse(&s)).unwrap_or(Engine::MapHist);
        Cfg { prop, engine, fault: prop == Prop::C04 }
    })
}

fn report(case: &Case, prop: Prop, msg: &str) -> ! {
    let dir = std::env::var("VERIF_DIR").unwrap_or_else(|_| "/verif".into());
    let _ = std::fs::create_dir_all(format!("{dir}/replays"));
    let path = format!("{dir}/replays/{}-fuzz-{:016x}.case", prop.name(), case.hash64());
    let _ = std::fs::write(&path, mmv::dispatch::to_text_named(&case, &[format!("violation: {msg}"), "found by the libFuzzer driver".into()]));
    eprintln!("violated: {msg}");
    eprintln!("VIOLATION property={} replay={}", prop.name(), path);
    std::process::abort();
}

fuzz_target!(|data: &[u8]| {
    let c = cfg();
    let mut case = Case::from_bytes(c.engine, c.prop, data);
    case.kind %= mmv::case::NKINDS;
    if case.ops.len() > 96 {
        case.ops.truncate(96);
    }
    case.univ = (case.univ % 97).max(1); // the engines clamp it to the capacity's range
    let mut cx = Ctx::new(c.prop, false);
    mmv::dispatch::run_case(&case, &mut cx);
    if let Some(v) = &cx.viol {
        report(&case, c.prop, v);
    }
    if c.fault {
        let t = mmv::tl::fuse_ticks().min(400);
        for p in 0..t {
            case.fuse = p as i32;
            let mut cx = Ctx::new(c.prop, false);
            mmv::dispatch::run_case(&case, &mut cx);
            if let Some(v) = &cx.viol {
                report(&case, c.prop, v);
            }
        }
    }
});
