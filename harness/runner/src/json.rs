//! Minimal JSON writer.
use std::fmt::Write;

pub enum J {
    S(String),
    N(f64),
    B(bool),
    A(Vec<J>),
    O(Vec<(String, J)>),
    /// pre-rendered JSON text
    Raw(String),
}

fn esc(s: &str, out: &mut String) {
    out.push('"');
    for c in s.chars() {
        match c {
            '"' => out.push_str("\\\""),
            '\\' => out.push_str("\\\\"),
            '\n' => out.push_str("\\n"),
            '\r' => out.push_str("\\r"),
            '\t' => out.push_str("\\t"),
            c if (c as u32) < 0x20 => {
                let _ = write!(out, "\\u{:04x}", c as u32);
            }
            c => out.push(c),
        }
    }
    out.push('"');
}

impl J {
    pub fn write(&self, out: &mut String, ind: usize) {
        let pad = |out: &mut String, n: usize| {
            for _ in 0..n {
                out.push(' ');
            }
        };
        match self {
            J::S(s) => esc(s, out),
            J::N(n) => {
                if n.fract() == 0.0 && n.abs() < 9.0e15 {
                    let _ = write!(out, "{}", *n as i64);
                } else {
                    let _ = write!(out, "{n}");
                }
            }
            J::B(b) => {
                let _ = write!(out, "{b}");
            }
            J::Raw(r) => out.push_str(r.trim()),
            J::A(v) => {
                if v.is_empty() {
                    out.push_str("[]");
                    return;
                }
                out.push_str("[\n");
                for (i, x) in v.iter().enumerate() {
                    pad(out, ind + 1);
                    x.write(out, ind + 1);
                    if i + 1 < v.len() {
                        out.push(',');
                    }
                    out.push('\n');
                }
                pad(out, ind);
                out.push(']');
            }
            J::O(v) => {
                if v.is_empty() {
                    out.push_str("{}");
                    return;
                }
                out.push_str("{\n");
                for (i, (k, x)) in v.iter().enumerate() {
                    pad(out, ind + 1);
                    esc(k, out);
                    out.push_str(": ");
                    x.write(out, ind + 1);
                    if i + 1 < v.len() {
                        out.push(',');
                    }
                    out.push('\n');
                }
                pad(out, ind);
                out.push('}');
            }
        }
    }
}
