//! Bounded-exhaustive (SmallCheck-style) enumeration drivers: every op sequence up to a depth
//! over a fully instantiated alphabet (histories), every ordered arrangement of every subset
//! on both sides (pair engines).

use crate::{evaluate, Agg, Known, Verdict, WORKERS};
use mmv::case::{Case, Engine, Prop};
use mmv::plan::Campaign;

fn code_for(weights: &[u8], op: usize) -> Option<u8> {
    let total: usize = weights.iter().map(|x| *x as usize).sum();
    (0..=255u8).find(|c| {
        let t = (*c as usize * total) >> 8;
        let mut acc = 0;
        for (i, w) in weights.iter().enumerate() {
            acc += *w as usize;
            if t < acc {
                return i == op;
            }
        }
        false
    })
}

fn key_byte(k: usize, u: usize) -> u8 {
    // smallest a with (a*u)>>8 == k
    ((k * 256 + u - 1) / u) as u8
}

/// Alphabet of fully instantiated raw ops for a map history over U keys.
fn map_alphabet(prop: Prop, u: usize) -> Vec<[u8; 4]> {
    use mmv::maphist::*;
    let w = weights(prop);
    let mut al: Vec<[u8; 4]> = Vec::new();
    let mut add = |op: usize, a: u8, b: u8, c: u8| {
        if let Some(code) = code_for(&w, op) {
            al.push([code, a, b, c]);
        }
    };
    for k in 0..u {
        let a = key_byte(k, u);
        add(OP_INSERT, a, 1, 0);
        add(OP_INSERT_KV, a, 2, 0);
        add(OP_CHECKED, a, 3, 0);
        add(OP_REMOVE, a, 0, 0);
        add(OP_REMOVE_ENTRY, a, 0, 1);
        add(OP_GET_MUT, a, 4, 1);
        add(OP_INDEX_MUT, a, 5, 0);
        if matches!(prop, Prop::C05 | Prop::C11 | Prop::C04 | Prop::C02 | Prop::C12) {
            // entry: one general chain and one variant-specific method per key
            add(OP_ENTRY, a, 6, 0); // or_insert
            add(OP_ENTRY, a, 7, 40); // occupied.remove / vacant.*
        }
    }
    // retain: keep only key 0, keep all but key 0, keep none
    add(OP_RETAIN, 1, 0b001, 0);
    add(OP_RETAIN, 0, 0b110, 0);
    add(OP_RETAIN, 0, 0, 0);
    add(OP_CLEAR, 0, 0, 0);
    add(OP_DRAIN, 0, 128, 0);
    if matches!(prop, Prop::C02 | Prop::C04 | Prop::C10) {
        add(OP_CONSUME, 0, 128, 0);
        add(OP_CONSUME, 0, 128, 100);
        add(OP_DRAIN, 0, 128, 100);
    }
    if matches!(prop, Prop::C02 | Prop::C04 | Prop::C15) {
        add(OP_CLONE, 0, 0, 0);
    }
    if matches!(prop, Prop::C04) {
        add(OP_FROM_ITER, 200, 7, 0);
        add(OP_CLONE, 255, 0, 0); // clone_from into the secondary (a plain clone while there is none)
        add(OP_CONSUME, 0, 100, 50); // into_iter: one step, then nth on the rest
        add(OP_CONSUME, 170, 100, 66); // into_values: one step, then last()
        add(OP_DRAIN, 0, 100, 82); // drain: one step, then fold
        add(OP_INSERT_UNCHECKED, key_byte(0, u), 9, 0);
    }
    al
}

fn set_alphabet(prop: Prop, u: usize) -> Vec<[u8; 4]> {
    use mmv::sethist::{weights, NOPS};
    let w: [u8; NOPS] = weights(prop);
    let mut al: Vec<[u8; 4]> = Vec::new();
    let mut add = |op: usize, a: u8, b: u8, c: u8| {
        if let Some(code) = code_for(&w, op) {
            al.push([code, a, b, c]);
        }
    };
    for k in 0..u {
        let a = key_byte(k, u);
        add(0, a, 0, 0); // insert
        add(1, a, 0, 0); // replace
        add(4, a, 0, 0); // remove
        add(5, a, 0, 1); // take
        add(3, a, 0, 1); // get
    }
    add(6, 0, 0b001, 0);
    add(6, 0, 0b110, 0);
    add(7, 0, 0, 0);
    add(8, 0, 128, 0);
    add(11, 3, 9, 60); // extend
    if matches!(prop, Prop::C02 | Prop::C04) {
        add(10, 0, 128, 0);
        add(12, 0, 0, 0);
        add(16, 255, 0, 0); // sub
    }
    if matches!(prop, Prop::C04) {
        add(12, 255, 0, 0); // clone_from
        add(10, 0, 100, 50); // into_iter: one step, then nth
        add(8, 0, 100, 66); // drain: one step, then last()
    }
    al
}

fn enumerate_histories(prop: Prop, engine: Engine, kind: u8, cap_idx: u8, univ: u8, alphabet: &[[u8; 4]], depth: usize, fault: bool, known: &Known) -> Agg {
    let camp = Campaign { name: "enum", engine, kinds: &[0], max_ops: depth, cases: (0, 0), caps: None, fault };
    let mut total = Agg::new();
    let n = alphabet.len();
    if n == 0 {
        return total;
    }
    std::thread::scope(|sc| {
        let mut hs = vec![];
        for wk in 0..WORKERS {
            let camp = camp.clone();
            hs.push(sc.spawn(move || {
                let mut agg = Agg::new();
                // all sequences of length 0..=depth, partitioned by (first symbol index % WORKERS)
                let mut idx: Vec<usize> = Vec::new();
                if wk == 0 {
                    let c = Case { engine, prop, kind, cap: cap_idx, cap2: 0, univ, mode: 0, fuse: -1, ops: vec![], named: vec![] };
                    if let Verdict::Fail(c, m, s) = evaluate(&c, prop, &camp, Some(&mut agg), known) {
                        agg.violation = Some((c, m, s));
                        return agg;
                    }
                }
                for len in 1..=depth {
                    for first in (wk..n).step_by(WORKERS) {
                        idx.clear();
                        idx.resize(len, 0);
                        idx[0] = first;
                        loop {
                            let ops: Vec<[u8; 4]> = idx.iter().map(|i| alphabet[*i]).collect();
                            let c = Case { engine, prop, kind, cap: cap_idx, cap2: 0, univ, mode: 0, fuse: -1, ops, named: vec![] };
                            if let Verdict::Fail(c, m, s) = evaluate(&c, prop, &camp, Some(&mut agg), known) {
                                agg.violation = Some((c, m, s));
                                return agg;
                            }
                            // odometer over positions 1..len
                            let mut p = len;
                            loop {
                                if p == 1 {
                                    p = 0;
                                    break;
                                }
                                p -= 1;
                                idx[p] += 1;
                                if idx[p] < n {
                                    break;
                                }
                                idx[p] = 0;
                            }
                            if p == 0 {
                                break;
                            }
                        }
                    }
                }
                agg
            }));
        }
        for h in hs {
            if let Ok(a) = h.join() {
                total.merge(a);
            }
        }
    });
    total
}

/// all ordered arrangements of all subsets of 0..u (as key lists)
fn arrangements(u: usize) -> Vec<Vec<usize>> {
    let mut out: Vec<Vec<usize>> = vec![vec![]];
    let mut frontier: Vec<Vec<usize>> = vec![vec![]];
    for _ in 0..u {
        let mut next = vec![];
        for a in &frontier {
            for k in 0..u {
                if !a.contains(&k) {
                    let mut b = a.clone();
                    b.push(k);
                    next.push(b);
                }
            }
        }
        out.extend(next.iter().cloned());
        frontier = next;
    }
    out
}

fn enumerate_pairs(prop: Prop, engine: Engine, kind: u8, pairs: &[(u8, u8)], u: usize, values: usize, known: &Known) -> Agg {
    use mmv::case::CAPS2;
    let camp = Campaign { name: "enum-pairs", engine, kinds: &[0], max_ops: 2 * u, cases: (0, 0), caps: None, fault: false };
    // one side = arrangement (x value assignment for maps)
    let arr = arrangements(u);
    let mut sides: Vec<Vec<[u8; 3]>> = Vec::new(); // (a byte, b byte, unused)
    for a in &arr {
        let combos = values.pow(a.len() as u32);
        for vc in 0..combos {
            let mut x = vc;
            let mut s = vec![];
            for k in a {
                s.push([key_byte(*k, u), (x % values) as u8, 0]);
                x /= values;
            }
            sides.push(s);
        }
    }
    let mut total = Agg::new();
    std::thread::scope(|sc| {
        let mut hs = vec![];
        for wk in 0..WORKERS {
            let camp = camp.clone();
            let sides = &sides;
            hs.push(sc.spawn(move || {
                let mut agg = Agg::new();
                for (ci, cj) in pairs {
                    let (n, m) = (CAPS2[*ci as usize], CAPS2[*cj as usize]);
                    for (li, l) in sides.iter().enumerate() {
                        if li % WORKERS != wk || l.len() > n {
                            continue;
                        }
                        for r in sides.iter() {
                            if r.len() > m {
                                continue;
                            }
                            let mut ops: Vec<[u8; 4]> = l.iter().map(|s| [0, s[0], s[1], 0]).collect();
                            ops.extend(r.iter().map(|s| [0, s[0], s[1], 0x80]));
                            let c = Case { engine, prop, kind, cap: *ci, cap2: *cj, univ: u as u8, mode: 0, fuse: -1, ops, named: vec![] };
                            if let Verdict::Fail(c, msg, s) = evaluate(&c, prop, &camp, Some(&mut agg), known) {
                                agg.violation = Some((c, msg, s));
                                return agg;
                            }
                        }
                    }
                }
                agg
            }));
        }
        for h in hs {
            if let Ok(a) = h.join() {
                total.merge(a);
            }
        }
    });
    total
}

pub fn run(prop: Prop, tier: &str, known: &Known) -> Option<(Agg, String)> {
    let thorough = tier == "thorough";
    match prop {
        Prop::C01 | Prop::C05 | Prop::C02 | Prop::C11 | Prop::C12 => {
            let depth = if thorough { 5 } else { 4 };
            let mut total = Agg::new();
            // tracked kind; N=1 (cap index 1), U=2 and N=2 (cap index 2), U=3
            for (cap_idx, u) in [(1u8, 2usize), (2u8, 3usize)] {
                let al = map_alphabet(prop, u);
                let d = if u == 3 { depth - 1 } else { depth };
                let a = enumerate_histories(prop, Engine::MapHist, 0, cap_idx, u as u8, &al, d, false, known);
                total.merge(a);
                if total.violation.is_some() {
                    break;
                }
            }
            Some((total, format!("all Map op sequences over the instantiated alphabet (insert/insert_key_value/checked_insert/remove/remove_entry/get_mut/index_mut per key, retain x3, clear, drain, entry where relevant): N=1,U=2 up to depth {depth}; N=2,U=3 up to depth {}", depth - 1)))
        }
        Prop::C07 => {
            let depth = if thorough { 5 } else { 4 };
            let mut total = Agg::new();
            for (cap_idx, u) in [(1u8, 2usize), (2u8, 3usize)] {
                let al = set_alphabet(prop, u);
                let d = if u == 3 { depth - 1 } else { depth };
                total.merge(enumerate_histories(prop, Engine::SetHist, 0, cap_idx, u as u8, &al, d, false, known));
                if total.violation.is_some() {
                    break;
                }
            }
            Some((total, format!("all Set op sequences over the instantiated alphabet (insert/replace/remove/take/get per element, retain x2, clear, drain, extend): N=1,U=2 up to depth {depth}; N=2,U=3 up to depth {}", depth - 1)))
        }
        Prop::C04 => {
            let depth = if thorough { 4 } else { 3 };
            let mut total = Agg::new();
            let al = map_alphabet(prop, 2);
            total.merge(enumerate_histories(prop, Engine::MapHist, 0, 2, 2, &al, depth, true, known));
            if total.violation.is_none() {
                let al = set_alphabet(prop, 2);
                total.merge(enumerate_histories(prop, Engine::SetHist, 0, 2, 2, &al, depth, true, known));
            }
            Some((total, format!("every callback position of every Map and Set op sequence up to depth {depth} over the instantiated alphabet (N=2, U=2, incl. clone, drain, consume, from_iter, entry, extend, sub)")))
        }
        Prop::C08 => {
            let pairs: Vec<(u8, u8)> = if thorough { (0..5).flat_map(|i| (0..5).map(move |j| (i, j))).collect() } else { vec![(4, 4), (3, 4), (4, 2), (2, 3), (1, 4), (0, 3)] };
            let a = enumerate_pairs(prop, Engine::SetAlg, 0, &pairs, 4, 1, known);
            Some((a, format!("universe of 4 elements: every ordered arrangement of every subset (65) on the left x the same on the right, for capacity pairs (indices into {{0,1,2,3,5}}) {pairs:?} that can hold them")))
        }
        Prop::C14 => {
            let pairs: Vec<(u8, u8)> = if thorough { (0..5).flat_map(|i| (0..5).map(move |j| (i, j))).collect() } else { vec![(3, 3), (3, 4), (4, 3), (2, 3)] };
            let mut a = enumerate_pairs(prop, Engine::MapEq, 0, &pairs, 3, 2, known);
            if a.violation.is_none() {
                a.merge(enumerate_pairs(prop, Engine::SetAlg, 0, &pairs, 3, 1, known));
            }
            Some((a, format!("maps over keys {{0,1,2}} x values {{0,1}}: all 79 arrangements (every partial map in every slot order) on both sides, and sets over 3 elements (16 arrangements) on both sides, for capacity pairs {pairs:?}")))
        }
        _ => None,
    }
}
