//! Bounded-exhaustive (SmallCheck-style) enumeration drivers.

use crate::{Agg, Known};
use mmv::case::Prop;

pub fn run(_prop: Prop, _tier: &str, _known: &Known) -> Option<(Agg, String)> {
    None
}
