//! Check runner: `runner <Cxx> quick|thorough` or `runner <Cxx> --replay <file>`.
//! Drivers: replay of the committed corpus, proptest (random histories), bounded-exhaustive
//! enumeration, fault enumeration. Writes /verif/evidence/<id>.json.

use mmv::case::{Case, Engine, Prop};
use mmv::ctx::{Ctx, NS, S, SNAMES};
use mmv::dispatch::{capacity_of, caps_for_kind, resolve_names, run_case, to_text_named};
use mmv::plan::{campaigns, nontrivial, rule_text, Campaign};
use mmv::tl;
use proptest::prelude::*;
use proptest::strategy::ValueTree;
use proptest::test_runner::{Config, RngSeed, TestCaseError, TestError, TestRunner};
use std::collections::HashSet;
use std::fmt::Write as _;
use std::path::{Path, PathBuf};
use std::sync::atomic::{AtomicBool, Ordering};
use std::time::Instant;

mod enumerate;
mod json;

#[global_allocator]
static ALLOC: tl::CountingAlloc = tl::CountingAlloc;

const WORKERS: usize = 16;

fn verif_dir() -> PathBuf {
    std::env::var("VERIF_DIR").map(PathBuf::from).unwrap_or_else(|_| PathBuf::from("/verif"))
}

pub struct Agg {
    pub evaluations: u64,
    pub cases: u64,
    pub nt: HashSet<u64>,
    pub st: [u64; NS],
    pub checks: u64,
    pub foreign: u64,
    pub discards: u64,
    pub samples: Vec<(Case, usize)>,
    pub violation: Option<(Case, String, String)>,
    pub known_hits: Vec<String>,
    pub fault_positions_skipped: u64,
    pub by_kind: std::collections::BTreeMap<String, u64>,
    pub by_cap: std::collections::BTreeMap<usize, u64>,
}


impl Agg {
    fn new() -> Agg {
        Agg {
            evaluations: 0,
            cases: 0,
            nt: HashSet::new(),
            st: [0; NS],
            checks: 0,
            foreign: 0,
            discards: 0,
            samples: vec![],
            violation: None,
            known_hits: vec![],
            fault_positions_skipped: 0,
            by_kind: Default::default(),
            by_cap: Default::default(),
        }
    }
    fn absorb_ctx(&mut self, case: &Case, cx: &Ctx, armed: Prop) {
        self.evaluations += 1;
        for i in 0..NS {
            self.st[i] += cx.st[i];
        }
        self.checks += cx.checks;
        self.foreign += cx.foreign;
        if cx.discard {
            self.discards += 1;
        }
        let n = match case.engine {
            Engine::Wide => 300,
            Engine::Slices => mmv::plan::SLICES_N,
            _ => capacity_of(case),
        };
        if nontrivial(armed, &cx.st, n) {
            let fresh = self.nt.insert(case.hash64());
            if fresh && self.samples.len() < 2 && (n >= 2 || self.evaluations > 200) && case.ops.len() <= 24 {
                self.samples.push((case.clone(), n));
            }
        }
        *self.by_kind.entry(mmv::case::KINDS[case.kind as usize % mmv::case::KINDS.len()].to_string()).or_insert(0) += 1;
        *self.by_cap.entry(n).or_insert(0) += 1;
    }
    fn merge(&mut self, o: Agg) {
        self.evaluations += o.evaluations;
        self.cases += o.cases;
        self.nt.extend(o.nt);
        for i in 0..NS {
            self.st[i] += o.st[i];
        }
        self.checks += o.checks;
        self.foreign += o.foreign;
        self.discards += o.discards;
        for s in o.samples {
            if self.samples.len() < 4 {
                self.samples.push(s);
            }
        }
        if self.violation.is_none() {
            self.violation = o.violation;
        }
        self.known_hits.extend(o.known_hits);
        self.fault_positions_skipped += o.fault_positions_skipped;
        for (k, v) in o.by_kind {
            *self.by_kind.entry(k).or_insert(0) += v;
        }
        for (k, v) in o.by_cap {
            *self.by_cap.entry(k).or_insert(0) += v;
        }
    }
}

/// Known findings: lines of /verif/known_findings.jsonl with "status":"known".
pub struct Known {
    pub sigs: Vec<(String, String, String)>, // property, signature, what
}

fn json_field(line: &str, key: &str) -> Option<String> {
    let pat = format!("\"{key}\"");
    let i = line.find(&pat)?;
    let rest = &line[i + pat.len()..];
    let c = rest.find(':')?;
    let rest = rest[c + 1..].trim_start();
    let rest = rest.strip_prefix('"')?;
    let mut out = String::new();
    let mut esc = false;
    for ch in rest.chars() {
        if esc {
            out.push(ch);
            esc = false;
        } else if ch == '\\' {
            esc = true;
        } else if ch == '"' {
            return Some(out);
        } else {
            out.push(ch);
        }
    }
    None
}

fn load_known() -> Known {
    let mut sigs = vec![];
    if let Ok(t) = std::fs::read_to_string(verif_dir().join("known_findings.jsonl")) {
        for line in t.lines() {
            if json_field(line, "status").as_deref() == Some("known") {
                if let (Some(p), Some(s)) = (json_field(line, "property"), json_field(line, "signature")) {
                    sigs.push((p, s, json_field(line, "what").unwrap_or_default()));
                }
            }
        }
    }
    Known { sigs }
}

impl Known {
    fn matches(&self, prop: Prop, sig: &str) -> Option<&str> {
        self.sigs.iter().find(|(p, s, _)| *p == prop.name() && s == sig).map(|(_, _, w)| w.as_str())
    }
}

fn mix(a: u64, b: u64) -> u64 {
    let mut x = a ^ b.wrapping_mul(0x9E37_79B9_7F4A_7C15);
    x ^= x >> 30;
    x = x.wrapping_mul(0xBF58_476D_1CE4_E5B9);
    x ^= x >> 27;
    x = x.wrapping_mul(0x94D0_49BB_1331_11EB);
    x ^ (x >> 31)
}

thread_local! {
    static JOURNAL: std::cell::RefCell<Option<std::fs::File>> = const { std::cell::RefCell::new(None) };
}

fn journal_open(prop: Prop, worker: usize) {
    let dir = verif_dir().join("work").join(format!("journal-{}", prop.name()));
    let _ = std::fs::create_dir_all(&dir);
    let f = std::fs::OpenOptions::new().create(true).write(true).truncate(true).open(dir.join(format!("w{worker:02}.case"))).ok();
    JOURNAL.with(|j| *j.borrow_mut() = f);
}

fn journal(case: &Case) {
    use std::io::{Seek, SeekFrom, Write};
    JOURNAL.with(|j| {
        if let Some(f) = j.borrow_mut().as_mut() {
            let t = case.to_text(&[]);
            let _ = f.seek(SeekFrom::Start(0));
            let _ = f.write_all(t.as_bytes());
            let _ = f.set_len(t.len() as u64);
        }
    });
}

/// Execute one case once. Returns the context.
fn exec(case: &Case, armed: Prop, trace: bool) -> Ctx {
    let mut cx = Ctx::new(armed, trace);
    journal(case);
    run_case(case, &mut cx);
    cx
}

/// Outcome of evaluating one generated case (for fault campaigns: the whole enumeration).
enum Verdict {
    Pass,
    Fail(Case, String, String),
}

fn evaluate(case: &Case, armed: Prop, camp: &Campaign, agg: Option<&mut Agg>, known: &Known) -> Verdict {
    let mut local = Agg::new();
    let agg = match agg {
        Some(a) => a,
        None => &mut local,
    };
    agg.cases += 1;
    let mut c = case.clone();
    c.fuse = -1;
    let cx = exec(&c, armed, false);
    agg.absorb_ctx(&c, &cx, armed);
    if let Some(v) = &cx.viol {
        let sig = cx.sig.clone().unwrap_or_default();
        if let Some(w) = known.matches(armed, &sig) {
            agg.known_hits.push(format!("{sig}: {w}"));
        } else {
            return Verdict::Fail(c, v.clone(), sig);
        }
    }
    if camp.fault {
        let t = tl::fuse_ticks();
        let positions: Vec<i64> = if t <= 600 {
            (0..t as i64).collect()
        } else {
            let stride = (t / 600 + 1) as i64;
            agg.fault_positions_skipped += t - t / stride as u64;
            (0..t as i64).step_by(stride as usize).collect()
        };
        for p in positions {
            c.fuse = p as i32;
            let cx = exec(&c, armed, false);
            agg.absorb_ctx(&c, &cx, armed);
            if let Some(v) = &cx.viol {
                let sig = cx.sig.clone().unwrap_or_default();
                if let Some(w) = known.matches(armed, &sig) {
                    agg.known_hits.push(format!("{sig}: {w}"));
                } else {
                    return Verdict::Fail(c, v.clone(), sig);
                }
            }
        }
    }
    Verdict::Pass
}

fn univ_for(n: usize, sel: u8) -> u8 {
    let u = match sel % 4 {
        0 => n.saturating_sub(1),
        1 => n,
        2 => n + 1,
        _ => n + 3,
    };
    u.max(1).min(if n > 17 { 96 } else { 24 }) as u8
}

fn strategy(prop: Prop, camp: Campaign) -> impl Strategy<Value = Case> {
    let max = camp.max_ops;
    // VERIF_SAFE_KINDS=1 (set by the check script after the runner was killed while deciding a
    // property that does not own crashes): leave out the heap-owning payload kind, under which a
    // double drop inside the library is a double free that kills the process, so that the
    // property's own oracle gets to decide on the ledger-tracked and plain kinds.
    let safe = std::env::var("VERIF_SAFE_KINDS").map(|v| v == "1").unwrap_or(false);
    let kinds: Vec<u8> = camp.kinds.iter().copied().filter(|k| !(safe && (*k == 2 || *k == 9))).collect();
    let kinds = if kinds.is_empty() { camp.kinds.to_vec() } else { kinds };
    (0..kinds.len(), 0u8..8, 0u8..5, 0u8..4, any::<u8>(), proptest::collection::vec(any::<[u8; 4]>(), 0..=max)).prop_map(move |(ki, cap, cap2, us, mode, ops)| {
        let kind = kinds[ki];
        let l = caps_for_kind(kind);
        let cap = match camp.caps {
            Some(cs) => cs[cap as usize % cs.len()] % l.len() as u8,
            None => cap % l.len() as u8,
        };
        let mut c = Case { engine: camp.engine, prop, kind, cap, cap2, univ: 1, mode, fuse: -1, ops, named: vec![] };
        if matches!(camp.engine, Engine::Wide | Engine::Slices) {
            c.univ = 255;
        } else if matches!(camp.engine, Engine::SetAlg | Engine::MapEq) {
            c.cap %= 5;
            let n = mmv::case::CAPS2[c.cap as usize].max(mmv::case::CAPS2[c.cap2 as usize % 5]);
            c.univ = univ_for(n, us).min(12);
        } else {
            c.univ = univ_for(capacity_of(&c), us);
        }
        c
    })
}

fn run_campaign(prop: Prop, camp: &Campaign, tier: &str, seed: u64, ci: usize, stop: &AtomicBool, known: &Known) -> Agg {
    // the quick figures in plan.rs are per worker and were sized for a ~1 s run; the quick tier runs three times that
    let cases = if tier == "thorough" { camp.cases.1 } else { camp.cases.0 * 3 };
    let scale: f64 = std::env::var("VERIF_SCALE").ok().and_then(|s| s.parse().ok()).unwrap_or(1.0);
    let cases = ((cases as f64) * scale).max(1.0) as u32;
    let mut total = Agg::new();
    std::thread::scope(|sc| {
        let mut hs = vec![];
        for wk in 0..WORKERS {
            let camp = camp.clone();
            hs.push(
                std::thread::Builder::new()
                    .stack_size(64 << 20)
                    .spawn_scoped(sc, move || {
                        let mut agg = Agg::new();
                        journal_open(prop, wk);
                        let cfg = Config {
                            cases,
                            failure_persistence: None,
                            rng_seed: RngSeed::Fixed(mix(mix(seed, prop as u64 * 1000 + ci as u64), wk as u64)),
                            max_shrink_iters: 20_000,
                            max_local_rejects: 1_000_000,
                            max_global_rejects: 1_000_000,
                            ..Config::default()
                        };
                        let mut runner = TestRunner::new(cfg);
                        let failed = std::cell::Cell::new(false);
                        let aggc = std::cell::RefCell::new(&mut agg);
                        let res = runner.run(&strategy(prop, camp.clone()), |case| {
                            if stop.load(Ordering::Relaxed) && !failed.get() {
                                return Ok(());
                            }
                            let v = if failed.get() {
                                // shrinking: do not count
                                evaluate(&case, prop, &camp, None, known)
                            } else {
                                let mut a = aggc.borrow_mut();
                                evaluate(&case, prop, &camp, Some(&mut **a), known)
                            };
                            match v {
                                Verdict::Pass => Ok(()),
                                Verdict::Fail(_, msg, _) => {
                                    failed.set(true);
                                    stop.store(true, Ordering::Relaxed);
                                    Err(TestCaseError::fail(msg))
                                }
                            }
                        });
                        drop(aggc);
                        if let Err(TestError::Fail(_, minimal)) = res {
                            // re-evaluate the minimal case to obtain the exact failing (case, fuse)
                            let minimal = ddmin(minimal, prop, &camp, known);
                            if let Verdict::Fail(c, msg, sig) = evaluate(&minimal, prop, &camp, None, known) {
                                agg.violation = Some((c, msg, sig));
                            }
                        } else if let Err(TestError::Abort(r)) = res {
                            eprintln!("proptest aborted: {r}");
                        }
                        agg
                    })
                    .unwrap(),
            );
        }
        for h in hs {
            match h.join() {
                Ok(a) => total.merge(a),
                Err(e) => {
                    let msg = e.downcast_ref::<String>().cloned().or_else(|| e.downcast_ref::<&str>().map(|s| s.to_string())).unwrap_or_default();
                    eprintln!("INCONCLUSIVE: worker panicked outside a library call: {msg}");
                    std::process::exit(2);
                }
            }
        }
    });
    total
}

/// Post-minimisation (also used for fuzzer-found inputs): delete op chunks, zero bytes, lower
/// capacity / universe, as long as the case keeps failing.
fn ddmin(mut case: Case, prop: Prop, camp: &Campaign, known: &Known) -> Case {
    let fails = |c: &Case| matches!(evaluate(c, prop, camp, None, known), Verdict::Fail(..));
    if !fails(&case) {
        return case;
    }
    let mut budget = 4000;
    let mut chunk = (case.ops.len() / 2).max(1);
    while chunk >= 1 && budget > 0 {
        let mut i = 0;
        let mut progressed = false;
        while i < case.ops.len() && budget > 0 {
            let mut t = case.clone();
            let end = (i + chunk).min(t.ops.len());
            t.ops.drain(i..end);
            budget -= 1;
            if fails(&t) {
                case = t;
                progressed = true;
            } else {
                i += chunk;
            }
        }
        if !progressed {
            if chunk == 1 {
                break;
            }
            chunk /= 2;
        }
    }
    for i in 0..case.ops.len() {
        for b in 1..4 {
            if case.ops[i][b] != 0 && budget > 0 {
                let mut t = case.clone();
                t.ops[i][b] = 0;
                budget -= 1;
                if fails(&t) {
                    case = t;
                }
            }
        }
    }
    while case.cap > 0 && budget > 0 {
        let mut t = case.clone();
        t.cap -= 1;
        t.univ = t.univ.min(univ_for(capacity_of(&t), 3));
        budget -= 1;
        if fails(&t) {
            case = t;
        } else {
            break;
        }
    }
    while case.univ > 1 && budget > 0 {
        let mut t = case.clone();
        t.univ -= 1;
        budget -= 1;
        if fails(&t) {
            case = t;
        } else {
            break;
        }
    }
    case
}

fn trace_of(case: &Case, armed: Prop) -> Vec<String> {
    let cx = exec(case, armed, true);
    let mut t = cx.trace.unwrap_or_default();
    if let Some(v) = cx.viol {
        t.push(format!("verdict: VIOLATION {v}"));
    } else {
        t.push("verdict: held".to_string());
    }
    t
}

fn write_replay(prop: Prop, case: &Case, msg: &str) -> PathBuf {
    let dir = verif_dir().join("replays");
    let _ = std::fs::create_dir_all(&dir);
    let path = dir.join(format!("{}-{:016x}.case", prop.name(), case.hash64()));
    let mut comments = vec![format!("violation: {msg}"), format!("capacity N = {}", match case.engine { Engine::Wide => 300, Engine::Slices => 5, _ => capacity_of(case) })];
    comments.extend(trace_of(case, prop));
    let _ = std::fs::write(&path, to_text_named(case, &comments));
    path
}

fn replay_corpus(prop: Prop, agg: &mut Agg, known: &Known) {
    let dir = verif_dir().join("corpus").join(prop.name());
    let Ok(rd) = std::fs::read_dir(&dir) else { return };
    let mut files: Vec<PathBuf> = rd.filter_map(|e| e.ok().map(|e| e.path())).filter(|p| p.extension().map(|e| e == "case").unwrap_or(false)).collect();
    files.sort();
    for f in files {
        let Ok(t) = std::fs::read_to_string(&f) else { continue };
        let Ok(mut case) = Case::from_text(&t) else {
            eprintln!("warning: cannot parse {}", f.display());
            continue;
        };
        case.prop = prop;
        if let Err(e) = resolve_names(&mut case) {
            eprintln!("warning: {}: {e}", f.display());
            continue;
        }
        let cx = exec(&case, prop, false);
        agg.absorb_ctx(&case, &cx, prop);
        agg.cases += 1;
        if let Some(v) = cx.viol {
            let sig = cx.sig.unwrap_or_default();
            if let Some(w) = known.matches(prop, &sig) {
                agg.known_hits.push(format!("{sig}: {w}"));
            } else if agg.violation.is_none() {
                agg.violation = Some((case, v, sig));
            }
        }
    }
}

fn main() {
    std::panic::set_hook(Box::new(|_| {}));
    let args: Vec<String> = std::env::args().collect();
    if args.len() < 3 {
        eprintln!("usage: runner <Cxx> quick|thorough | runner <Cxx> --replay <file>");
        std::process::exit(2);
    }
    let Some(prop) = Prop::parse(&args[1]) else {
        eprintln!("unknown property {}", args[1]);
        std::process::exit(2);
    };
    let known = load_known();
    if args[2] == "--replay" {
        let path = args.get(3).expect("replay file");
        let t = std::fs::read_to_string(path).expect("cannot read replay file");
        let mut case = Case::from_text(&t).expect("cannot parse replay file");
        case.prop = prop;
        resolve_names(&mut case).expect("cannot resolve op names of the replay file");
        let tr = trace_of(&case, prop);
        for l in &tr {
            println!("{l}");
        }
        let cx = exec(&case, prop, false);
        if let Some(v) = cx.viol {
            println!("violated: {v}");
            println!("VIOLATION property={} replay={}", prop.name(), path);
            std::process::exit(1);
        }
        println!("replay: property {} held on this case", prop.name());
        std::process::exit(0);
    }
    if args[2] == "--replay-dir" {
        // run every *.case file of a directory in this one process (Miri sample, regression sweeps)
        let dir = PathBuf::from(args.get(3).expect("dir"));
        let max_fault: i64 = args.get(4).and_then(|s| s.parse().ok()).unwrap_or(60);
        let mut files: Vec<PathBuf> = std::fs::read_dir(&dir).expect("dir").filter_map(|e| e.ok().map(|e| e.path())).filter(|p| p.extension().map(|e| e == "case").unwrap_or(false)).collect();
        files.sort();
        let mut n = 0u64;
        for f in files {
            let Ok(t) = std::fs::read_to_string(&f) else { continue };
            let Ok(mut case) = Case::from_text(&t) else { continue };
            case.prop = prop;
            if resolve_names(&mut case).is_err() {
                continue;
            }
            println!("case: {}", f.display());
            let cx = exec(&case, prop, false);
            n += 1;
            let mut viol = cx.viol.clone();
            if viol.is_none() && prop == Prop::C04 && case.fuse < 0 {
                let t = (tl::fuse_ticks() as i64).min(max_fault);
                for p in 0..t {
                    case.fuse = p as i32;
                    let cx = exec(&case, prop, false);
                    n += 1;
                    if cx.viol.is_some() {
                        viol = cx.viol;
                        break;
                    }
                }
            }
            if let Some(v) = viol {
                let rp = write_replay(prop, &case, &v);
                println!("violated: {v}");
                println!("VIOLATION property={} replay={}", prop.name(), rp.display());
                std::process::exit(1);
            }
        }
        println!("replay-dir: {n} executions, property {} held", prop.name());
        std::process::exit(0);
    }
    if args[2] == "--decode" {
        // fuzz artifact bytes -> case file: runner Cxx --decode <engine> <artifact> <out.case>
        let engine = Engine::parse(args.get(3).expect("engine")).expect("engine name");
        let data = std::fs::read(args.get(4).expect("artifact")).expect("read artifact");
        let mut case = Case::from_bytes(engine, prop, &data);
        case.kind %= mmv::case::NKINDS;
        case.ops.truncate(96);
        case.univ = (case.univ % 97).max(1);
        std::fs::write(args.get(5).expect("out"), to_text_named(&case, &["decoded from a libFuzzer artifact".into()])).expect("write");
        std::process::exit(0);
    }
    if args[2] == "--dump" {
        // dump N generated cases (for Miri / fuzz seed corpora): runner Cxx --dump <dir> <count>
        let dir = PathBuf::from(args.get(3).expect("dir"));
        let count: usize = args.get(4).and_then(|s| s.parse().ok()).unwrap_or(50);
        dump_cases(prop, &dir, count);
        std::process::exit(0);
    }
    let tier = args[2].as_str();
    let seed: u64 = std::env::var("VERIF_SEED").ok().and_then(|s| s.parse::<i64>().ok()).map(|x| x as u64).unwrap_or(1);
    let t0 = Instant::now();
    let mut agg = Agg::new();
    let mut campaign_notes: Vec<String> = Vec::new();
    replay_corpus(prop, &mut agg, &known);
    let corpus_cases = agg.cases;
    let mut exhaustive_note: Option<String> = None;
    if agg.violation.is_none() {
        if let Some((a, note)) = enumerate::run(prop, tier, &known) {
            campaign_notes.push(format!("enumeration: {note} ({} cases)", a.cases));
            exhaustive_note = Some(note);
            agg.merge(a);
        }
    }
    if agg.violation.is_none() {
        let stop = AtomicBool::new(false);
        for (ci, camp) in campaigns(prop).iter().enumerate() {
            let a = run_campaign(prop, camp, tier, seed, ci, &stop, &known);
            campaign_notes.push(format!("{}: {} cases, {} executions, {} distinct non-trivial", camp.name, a.cases, a.evaluations, a.nt.len()));
            agg.merge(a);
            if agg.violation.is_some() {
                break;
            }
        }
    }
    let wall = t0.elapsed().as_secs_f64();
    // known findings
    let mut kh: Vec<String> = agg.known_hits.clone();
    kh.sort();
    kh.dedup();
    for k in &kh {
        println!("KNOWN-FINDING: property={} {}", prop.name(), k);
    }
    let mut replay_path: Option<PathBuf> = None;
    if let Some((case, msg, _sig)) = &agg.violation {
        let p = write_replay(prop, case, msg);
        replay_path = Some(p);
    }
    write_evidence(prop, tier, seed, &agg, wall, corpus_cases, &campaign_notes, exhaustive_note.as_deref(), replay_path.as_deref());
    println!(
        "{} {}: {} executions of {} cases, {} distinct non-trivial, {} armed assertions, {:.1}s",
        prop.name(),
        tier,
        agg.evaluations,
        agg.cases,
        agg.nt.len(),
        agg.checks,
        wall
    );
    if let Some((_, msg, _)) = &agg.violation {
        println!("violated: {msg}");
        println!("VIOLATION property={} replay={}", prop.name(), replay_path.unwrap().display());
        std::process::exit(1);
    }
    if agg.cases > 0 && agg.discards * 2 > agg.cases {
        println!("INCONCLUSIVE: more than half of the cases were discarded at set-up");
        std::process::exit(2);
    }
    std::process::exit(0);
}

fn dump_cases(prop: Prop, dir: &Path, count: usize) {
    let _ = std::fs::create_dir_all(dir);
    let seed: u64 = std::env::var("VERIF_SEED").ok().and_then(|s| s.parse::<i64>().ok()).map(|x| x as u64).unwrap_or(1);
    let camps = campaigns(prop);
    let mut k = 0;
    for (ci, camp) in camps.iter().enumerate() {
        let cfg = Config { cases: 1, failure_persistence: None, rng_seed: RngSeed::Fixed(mix(seed, 777 + ci as u64)), ..Config::default() };
        let mut runner = TestRunner::new(cfg);
        let st = strategy(prop, camp.clone());
        for _ in 0..count / camps.len().max(1) + 1 {
            if let Ok(tree) = st.new_tree(&mut runner) {
                let case = tree.current();
                // samples for the slow platforms (Miri): small capacities and short histories only
                if std::env::var("VERIF_DUMP_SMALL").is_ok() && (case.engine == Engine::Wide || case.engine == Engine::Slices || capacity_of(&case) > 17 || case.ops.len() > 24) {
                    continue;
                }
                let _ = std::fs::write(dir.join(format!("{}-{:03}.case", prop.name(), k)), case.to_text(&[]));
                let _ = std::fs::write(dir.join(format!("{}-{:03}.bin", prop.name(), k)), case.to_bytes());
                k += 1;
            }
        }
    }
    println!("dumped {k} cases to {}", dir.display());
}

#[allow(clippy::too_many_arguments)]
fn write_evidence(prop: Prop, tier: &str, seed: u64, agg: &Agg, wall: f64, corpus_cases: u64, notes: &[String], exhaustive: Option<&str>, replay: Option<&Path>) {
    use json::J;
    let mut samples: Vec<J> = Vec::new();
    for (case, n) in agg.samples.iter().take(3) {
        let tr = trace_of(case, prop);
        let mut lines: Vec<J> = tr.iter().take(60).map(|l| J::S(l.clone())).collect();
        if tr.len() > 60 {
            lines.push(J::S(format!("... {} more lines", tr.len() - 60)));
        }
        samples.push(J::O(vec![
            ("engine".into(), J::S(case.engine.name().into())),
            ("kind".into(), J::S(mmv::case::KINDS[case.kind as usize % mmv::case::KINDS.len()].into())),
            ("capacity".into(), J::N(*n as f64)),
            ("universe".into(), J::N(case.univ as f64)),
            ("fuse".into(), J::N(case.fuse as f64)),
            ("ops".into(), J::N(case.ops.len() as f64)),
            ("trace".into(), J::A(lines)),
        ]));
    }
    if samples.is_empty() {
        samples.push(J::S("no non-trivial case was generated in this run".into()));
    }
    let mut classes: Vec<(String, J)> = Vec::new();
    for i in 0..NS {
        if agg.st[i] > 0 {
            classes.push((SNAMES[i].to_string(), J::N(agg.st[i] as f64)));
        }
    }
    let level = if prop == Prop::C04 { "fault_enumeration" } else { "exploration" };
    let mut cov: Vec<(String, J)> = vec![
        ("evaluations".into(), J::N(agg.evaluations as f64)),
        ("generated_cases".into(), J::N(agg.cases as f64)),
        ("distinct_nontrivial".into(), J::N(agg.nt.len() as f64)),
        ("rule".into(), J::S(format!("{}{}", rule_text(prop), if notes.iter().any(|n| n.starts_with("wide-over-255")) { "; additionally model-based histories over Map<u16,u32,300> / Set<u16,300> prefilled to 256..300 entries (non-trivial there = at least one op executed while more than 255 entries were stored)" } else { "" }))),
        ("samples".into(), J::A(samples)),
        ("armed_assertions_evaluated".into(), J::N(agg.checks as f64)),
        ("assertions_failed_but_owned_by_other_properties".into(), J::N(agg.foreign as f64)),
        ("discarded_setups".into(), J::N(agg.discards as f64)),
        ("corpus_cases_replayed".into(), J::N(corpus_cases as f64)),
        ("classes".into(), J::O(classes)),
        ("by_kind".into(), J::O(agg.by_kind.iter().map(|(k, v)| (k.clone(), J::N(*v as f64))).collect())),
        ("by_capacity".into(), J::O(agg.by_cap.iter().map(|(k, v)| (format!("N={k}"), J::N(*v as f64))).collect())),
        ("campaigns".into(), J::A(notes.iter().map(|n| J::S(n.clone())).collect())),
        ("profile".into(), J::S(std::env::var("VERIF_PROFILE_NOTE").unwrap_or_else(|_| if cfg!(debug_assertions) { "dev (debug assertions on), micromap feature std off".into() } else { "release (debug assertions off), micromap feature std off".to_string() }))),
        ("fault_positions_skipped_by_stride".into(), J::N(agg.fault_positions_skipped as f64)),
        ("known_findings_hit".into(), J::N(agg.known_hits.len() as f64)),
    ];
    if let Some(e) = exhaustive {
        cov.push(("exhaustive".into(), J::B(true)));
        cov.push(("exhaustive_scope".into(), J::S(e.into())));
    } else {
        cov.push(("exhaustive".into(), J::B(false)));
    }
    if let Some(r) = replay {
        cov.push(("replay".into(), J::S(r.display().to_string())));
    }
    if let Ok(aux) = std::env::var("VERIF_AUX_EVIDENCE") {
        let mut others: Vec<(String, J)> = Vec::new();
        for p in aux.split(':').filter(|p| !p.is_empty()) {
            if let Ok(t) = std::fs::read_to_string(p) {
                let name = Path::new(p).file_name().map(|f| f.to_string_lossy().to_string()).unwrap_or_default();
                others.push((name, J::Raw(t)));
            }
        }
        if !others.is_empty() {
            cov.push(("other_profiles_same_run".into(), J::O(others)));
        }
    }
    let doc = J::O(vec![
        ("property_id".into(), J::S(prop.name())),
        ("tier".into(), J::S(tier.into())),
        ("seed".into(), J::N(seed as i64 as f64)),
        ("level".into(), J::S(level.into())),
        ("coverage".into(), J::O(cov)),
        (
            "assumptions".into(),
            J::A(vec![
                J::S("capacities are the compiled list {0,1,2,3,4,6,9,17} (pairs {0,1,2,3,5}); the code has no N-specific branch other than N==0 / len==N (small-scope argument, not a proof)".into()),
                J::S("generated search never establishes absence; histories are at most the stated length".into()),
                J::S("the harness's own ledger, model and decoders are trusted; they were validated against deliberately broken trees (DESIGN.md section 7)".into()),
            ]),
        ),
        ("wall_s".into(), J::N((wall * 1000.0).round() / 1000.0)),
        ("violations".into(), J::N(if agg.violation.is_some() { 1.0 } else { 0.0 })),
    ]);
    let dir = std::env::var("VERIF_EVIDENCE_DIR").map(PathBuf::from).unwrap_or_else(|_| verif_dir().join("evidence"));
    let _ = std::fs::create_dir_all(&dir);
    let suffix = std::env::var("VERIF_EVIDENCE_SUFFIX").unwrap_or_default();
    let mut s = String::new();
    doc.write(&mut s, 0);
    let _ = writeln!(s);
    let _ = std::fs::write(dir.join(format!("{}{}.json", prop.name(), suffix)), s);
    let _ = Engine::MapHist;
    let _ = S::ops;
}
