fn main(){ mmv::hi(); }
