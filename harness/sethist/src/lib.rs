//! `sethist`: interpreter of Set operation histories against a reference set, with the same
//! standing invariants as `maphist` (uniqueness, ledger, canaries, addresses, allocations).

use micromap::Set;
use mmv_base::case::{scale, Case, Prop, PS};
use mmv_base::ctx::{Ctx, S};
use mmv_base::fmtutil::{fmt_debug, fmt_display, RefSet};
use mmv_base::kinds::{Kind, NOID};
use mmv_base::probe::{check_multiset, check_ordered, probe, ProbeOut};
use mmv_base::tl::{self, Caged, Cb, Pk};
use std::cell::Cell;
use std::collections::BTreeMap;

pub type St<KD, const N: usize> = Set<<KD as Kind>::K, N>;
/// raw -> stored key object id
pub type Model = BTreeMap<u8, u32>;

#[derive(Clone, Copy, Debug, PartialEq, Eq)]
pub struct Obs {
    pub raw: u8,
    pub kid: u32,
    pub ka: usize,
    pub live: bool,
}

pub struct Slot<KD: Kind, const N: usize> {
    pub c: Box<Caged<St<KD, N>>>,
    pub model: Model,
    pub order: Vec<u8>,
    pub swapped: bool,
    pub drained: bool,
}
impl<KD: Kind, const N: usize> Slot<KD, N> {
    fn new() -> Self {
        Slot { c: Box::new(Caged::new(Set::new())), model: Model::new(), order: vec![], swapped: false, drained: false }
    }
}

const P_ALL: PS = PS(0xFFFF_FFFE);
const P_WELL: PS = PS::of(Prop::C05).and(Prop::C04).and(Prop::C17).and(Prop::C03);
const P_LEDGER: PS = PS::of(Prop::C02).and(Prop::C04).and(Prop::C17).and(Prop::C03).and(Prop::C15);
const P_LEAK: PS = PS::of(Prop::C02).and(Prop::C17).and(Prop::C03).and(Prop::C15);
const P_CANARY: PS = PS::of(Prop::C03).and(Prop::C17).and(Prop::C04);
const P_ADDR: PS = PS::of(Prop::C06);
const P07: PS = PS::of(Prop::C07);
const P09: PS = PS::of(Prop::C09);
const P10: PS = PS::of(Prop::C10);
const P12: PS = PS::of(Prop::C12);
const P14: PS = PS::of(Prop::C14);
const P15: PS = PS::of(Prop::C15);
const P16: PS = PS::of(Prop::C16);
const P19: PS = PS::of(Prop::C19);
const P03: PS = PS::of(Prop::C03);

pub const NOPS: usize = 17;
pub const OP_NAMES: [&str; NOPS] =
    ["insert", "replace", "contains", "get", "remove", "take", "retain", "clear", "drain", "walk", "consume", "extend", "clone", "from_iter", "overflow_sweep", "fmt", "eq/sub"];
const O_INSERT: usize = 0;
const O_REPLACE: usize = 1;
const O_CONTAINS: usize = 2;
const O_GET: usize = 3;
const O_REMOVE: usize = 4;
const O_TAKE: usize = 5;
const O_RETAIN: usize = 6;
const O_CLEAR: usize = 7;
const O_DRAIN: usize = 8;
const O_WALK: usize = 9;
const O_CONSUME: usize = 10;
const O_EXTEND: usize = 11;
const O_CLONE: usize = 12;
const O_FROM_ITER: usize = 13;
const O_OVERFLOW: usize = 14;
const O_FMT: usize = 15;
const O_EQSUB: usize = 16;

pub fn weights(p: Prop) -> [u8; NOPS] {
    //             ins rep con get rem tak ret clr drn wlk cns ext cln fri ovf fmt eq
    match p {
        Prop::C02 => [10, 6, 1, 1, 5, 5, 3, 1, 6, 1, 8, 4, 3, 3, 0, 0, 2],
        Prop::C03 => [14, 4, 0, 0, 5, 3, 2, 0, 1, 0, 0, 3, 0, 4, 12, 0, 0],
        Prop::C04 => [10, 5, 1, 1, 5, 4, 5, 3, 4, 1, 4, 5, 6, 4, 0, 0, 6],
        Prop::C05 => [12, 6, 1, 2, 6, 5, 4, 1, 2, 3, 3, 4, 2, 2, 0, 0, 0],
        Prop::C06 => [10, 4, 3, 3, 5, 4, 3, 1, 3, 6, 3, 4, 3, 3, 0, 4, 4],
        Prop::C09 => [14, 3, 1, 1, 9, 5, 3, 0, 1, 16, 0, 2, 1, 0, 0, 0, 0],
        Prop::C10 => [14, 3, 1, 0, 7, 4, 2, 0, 9, 1, 9, 2, 2, 0, 0, 0, 0],
        Prop::C12 => [14, 12, 0, 6, 5, 6, 1, 0, 1, 3, 3, 5, 1, 4, 0, 0, 0],
        Prop::C15 => [10, 4, 2, 2, 6, 4, 3, 1, 2, 1, 2, 2, 12, 0, 0, 0, 4],
        Prop::C16 => [5, 2, 1, 1, 3, 2, 1, 0, 0, 0, 0, 14, 0, 18, 0, 0, 0],
        Prop::C17 => [10, 6, 3, 3, 6, 5, 4, 1, 2, 2, 2, 4, 2, 3, 0, 0, 4],
        Prop::C19 => [12, 3, 0, 0, 7, 4, 2, 0, 1, 0, 0, 2, 1, 1, 0, 12, 0],
        _ => [12, 6, 4, 4, 8, 6, 4, 1, 2, 1, 1, 4, 1, 1, 0, 0, 0],
    }
}

pub fn pick(w: &[u8; NOPS], code: u8) -> usize {
    let total: usize = w.iter().map(|x| *x as usize).sum();
    let t = (code as usize * total) >> 8;
    let mut acc = 0usize;
    for (i, x) in w.iter().enumerate() {
        acc += *x as usize;
        if t < acc {
            return i;
        }
    }
    0
}

#[inline]
fn addr<T>(r: &T) -> usize {
    tl::addr_of(r)
}

/// Source iterator that counts pulls and ticks the fuse.
pub struct Src<'a, T> {
    pub it: std::vec::IntoIter<T>,
    pub pulled: &'a Cell<usize>,
    pub hint: u8,
    /// a source that is not fused: items it would hand out if polled again after it has
    /// returned None (a `for` loop never does that; they must not reach the container)
    pub after: Vec<T>,
    pub ended: bool,
}
impl<T> Iterator for Src<'_, T> {
    type Item = T;
    fn next(&mut self) -> Option<T> {
        tl::tick(Cb::SrcNext);
        let mut x = self.it.next();
        if x.is_none() {
            if self.ended {
                x = self.after.pop();
            }
            self.ended = true;
        }
        if x.is_some() {
            self.pulled.set(self.pulled.get() + 1);
        }
        x
    }
    /// what the source reports as size_hint: four truthful shapes (a lower bound that is not above,
    /// an upper bound that is not below the number of items still to come) and, when bits 3 and 4
    /// of `hint` are both set, four untruthful ones
    fn size_hint(&self) -> (usize, Option<usize>) {
        let n = self.it.len();
        if self.hint & 0x18 == 0x18 {
            // a source whose size_hint is wrong (safe code may get it wrong; the container must
            // not rely on it for memory safety or for its capacity check)
            return match self.hint & 3 {
                0 => (0, Some(0)),
                1 => (n / 2, Some(n / 2)),
                2 => (n + 2, Some(n + 2)),
                _ => (0, Some(n.saturating_sub(1))),
            };
        }
        match self.hint & 3 {
            0 => (n, Some(n)),
            1 => (0, None),
            2 => (n, None),
            _ => (0, Some(n)),
        }
    }
}

pub struct SetEng<'c, KD: Kind, const N: usize> {
    pub cx: &'c mut Ctx,
    pub univ: u8,
    pub slots: [Option<Slot<KD, N>>; 2],
    pub liar: bool,
    pub faulted: bool,
    pub ever_faulted: bool,
    pub lib_panicked: bool,
    pub cur_target: usize,
    pub cloned: bool,
    pub mutated_after_clone: bool,
    pub groups: u8,
    pub dup_paths: u32,
    pub poisoned: bool,
    /// C09: the models as they were when the op in flight started (see maphist)
    pub quiet0: Option<[Option<Model>; 2]>,
    /// a container is malformed (duplicate keys, len disagrees with iteration, dead element) and
    /// the armed property does not own that: the rest of the case is discarded
    pub abandon: bool,
    /// an iterator / drain was forgotten in the op in flight: what it held may have leaked
    pub may_leak: bool,
    pub op_overflow: bool,
    pub ever_overflow: bool,
    pub ever_cloned: bool,
}

fn unexpected(cx: &mut Ctx, liar: bool, owners: PS, p: &Pk) -> bool {
    match p {
        Pk::Injected => true,
        _ => {
            if !liar {
                let n = p.name();
                cx.chk(owners, false, "unexpected-panic", || format!("library call panicked ({n}) where the model expects a normal return"));
            }
            false
        }
    }
}

impl<'c, KD: Kind, const N: usize> SetEng<'c, KD, N>
where
    KD::K: Copy2,
{
    fn lib<R>(cx: &mut Ctx, f: impl FnOnce() -> R) -> Result<R, Pk> {
        let r = tl::lib(f);
        if KD::NOALLOC && r.is_ok() {
            cx.bump(S::alloc_checks);
            let n = tl::last_allocs();
            cx.chk(PS::of(Prop::C06), n == 0, "alloc", || format!("{n} allocator request(s) during a non-panicking call"));
        }
        r
    }

    fn key_of(&self, a: u8) -> u8 {
        scale(a, self.univ as usize) as u8
    }

    fn note_fault(&mut self, f: bool, mutating: bool) {
        if f {
            self.faulted = true;
            self.ever_faulted = true;
            if mutating {
                self.cx.bump(S::fault_in_mutating_op);
            }
        }
    }

    fn note_mut(&mut self) {
        self.cx.bump(S::mutations);
        if self.lib_panicked {
            self.cx.bump(S::mutation_after_lib_panic);
        }
        if self.cloned && self.slots[1].is_some() && !self.mutated_after_clone {
            self.mutated_after_clone = true;
            self.cx.bump(S::mutate_after_clone);
        }
    }

    pub fn observe(c: &Caged<St<KD, N>>) -> Result<Vec<Obs>, Pk> {
        tl::quiet(|| {
            let mut v = Vec::with_capacity(N + 1);
            for k in c.m.iter() {
                v.push(Obs { raw: KD::kraw(k), kid: KD::kid(k), ka: addr(k), live: KD::klive(k) });
                if v.len() > N + 4 {
                    break;
                }
            }
            v
        })
    }

    pub fn after(&mut self, state: PS, ident: PS) {
        let liar = self.liar;
        let faulted = self.faulted;
        let univ = self.univ;
        let target = self.cur_target;
        let (state0, ident0) = (state, ident);
        let mut elig = PS::of(Prop::C02).and(Prop::C05);
        if self.ever_faulted {
            elig = elig.and(Prop::C04);
        }
        if self.op_overflow {
            elig = elig.and(Prop::C03);
            self.ever_overflow = true;
        }
        if self.cloned || self.cx.cur_op == "clone" {
            elig = elig.and(Prop::C15);
            self.ever_cloned = true;
        }
        if liar && tl::liar_lies() > 0 {
            elig = elig.and(Prop::C17);
        }
        let (p_well, p_ledger, p_canary, p_leak) = (P_WELL.inter(elig), P_LEDGER.inter(elig), P_CANARY.inter(elig), P_LEAK.inter(elig));
        let p_all = p_well.union(p_ledger).union(state0);
        let mut stored: Vec<u32> = Vec::new();
        let mut stored_n: i64 = 0;
        let mut malformed = false;
        for w in 0..2 {
            let (state, ident) = if target == 2 || target == w { (state0, ident0) } else { (P15, P15) };
            let Some(slot) = self.slots[w].as_mut() else { continue };
            let cx = &mut *self.cx;
            let obs = match Self::observe(&slot.c) {
                Ok(o) => o,
                Err(_) => {
                    cx.chk(p_all, false, "broken-container", || "iterating the set panicked".into());
                    self.poisoned = true;
                    return;
                }
            };
            stored_n += obs.len() as i64;
            let len = slot.c.m.len();
            let cap = slot.c.m.capacity();
            if obs.len() != len || len > cap || obs.iter().any(|o| !o.live) {
                malformed = true;
            }
            cx.chk(p_well, obs.len() == len, "len-vs-iter", || format!("len()={} but iteration yields {} elements", len, obs.len()));
            cx.chk(p_well, slot.c.m.is_empty() == (len == 0), "is_empty", || format!("is_empty()={} with len()={}", slot.c.m.is_empty(), len));
            cx.chk(p_well, len <= cap, "len-vs-capacity", || format!("len()={len} exceeds capacity()={cap}"));
            if len > cap || !slot.c.intact() {
                self.poisoned = true;
            }
            cx.chk(P03, cap == N, "capacity", || format!("capacity()={cap} but N={N}"));
            cx.chk(p_canary, slot.c.intact(), "canary", || "bytes outside the container were overwritten".into());
            for o in &obs {
                cx.chk(p_ledger.and(Prop::C05), o.live, "dead-yield", || format!("iteration yields a dead or uninitialised element ({})", o.raw));
                cx.bump(S::addr_checks);
                cx.chk(P_ADDR, slot.c.contains(o.ka, std::mem::size_of::<KD::K>()), "addr", || "iter() yields a reference outside the container value".into());
            }
            if KD::TRACKED {
                for (i, a) in obs.iter().enumerate() {
                    for b in &obs[i + 1..] {
                        cx.chk(p_ledger, a.kid != b.kid, "object-twice", || format!("one object is stored in two slots ({})", a.raw));
                    }
                }
                stored.extend(obs.iter().map(|o| o.kid));
            }
            if !liar {
                for (i, a) in obs.iter().enumerate() {
                    for b in &obs[i + 1..] {
                        if a.raw == b.raw {
                            malformed = true;
                        }
                        cx.chk(p_well, a.raw != b.raw, "duplicate-key", || format!("element {} is yielded twice by iteration", a.raw));
                    }
                }
                for o in &obs {
                    let qo = KD::qo(o.raw);
                    let got = tl::quiet(|| slot.c.m.get::<KD::Q>(KD::q(&qo)).map(|k| addr(k)));
                    cx.chk(p_well, got == Ok(Some(o.ka)), "yield-vs-get", || format!("get({}) does not return the yielded element", o.raw));
                    let got = tl::quiet(|| slot.c.m.contains::<KD::Q>(KD::q(&qo)));
                    cx.chk(p_well, got == Ok(true), "yield-vs-contains", || format!("contains({}) is false for a yielded element", o.raw));
                }
            }
            // C09, "iterating twice without an intervening mutation yields the same order": a call
            // after which the set holds the very objects it held before is no mutation
            if self.quiet0.as_ref().is_some_and(|q| q[w].as_ref() == Some(&slot.model)) && !faulted && !liar {
                cx.bump(S::order_checks_across_quiet_mut_calls);
                let same = slot.order.len() == obs.len() && slot.order.iter().zip(obs.iter()).all(|(a, o)| *a == o.raw);
                cx.chk(P09, same, "order-stable", || format!("iteration order changed across a call that left every element as it was: {:?} before, {:?} after", slot.order, obs.iter().map(|o| o.raw).collect::<Vec<_>>()));
            }
            slot.order.clear();
            slot.order.extend(obs.iter().map(|o| o.raw));
            if obs.is_empty() {
                slot.swapped = false;
            }
            if len == N {
                cx.bump(S::steps_at_full);
            }
            if liar {
                continue;
            }
            let mut same_state = obs.len() == slot.model.len();
            let mut same_ident = true;
            for o in &obs {
                match slot.model.get(&o.raw) {
                    Some(kid) => {
                        if KD::IDENT && *kid != o.kid {
                            same_ident = false;
                        }
                    }
                    None => same_state = false,
                }
            }
            if faulted {
                same_state = false;
                same_ident = false;
            } else {
                cx.chk(state, same_state, "state-vs-model", || {
                    format!("set {w} holds {:?}, the model holds {:?}", obs.iter().map(|o| o.raw).collect::<Vec<_>>(), slot.model.keys().collect::<Vec<_>>())
                });
                cx.chk(ident, same_ident, "stored-key-identity", || format!("set {w}: a stored element object is not the one the model expects"));
            }
            if !same_state || !same_ident {
                if !faulted {
                    cx.bump(S::resyncs);
                }
                slot.model.clear();
                for o in &obs {
                    slot.model.insert(o.raw, o.kid);
                }
            }
            if state.has(cx.armed) && !faulted {
                for u in 0..univ {
                    let want = slot.model.contains_key(&u);
                    let qo = KD::qo(u);
                    let got = tl::quiet(|| slot.c.m.contains::<KD::Q>(KD::q(&qo)));
                    cx.chk(state, got == Ok(want), "contains-borrowed", || format!("set {w}: contains({u}) by borrowed form gives {got:?}, model {want}"));
                    let key = KD::key(u);
                    let got = tl::quiet(|| slot.c.m.contains::<KD::K>(&key));
                    cx.chk(state, got == Ok(want), "contains-key", || format!("set {w}: contains({u}) by element gives {got:?}, model {want}"));
                    drop(key);
                }
            }
        }
        if KD::TRACKED {
            let cx = &mut *self.cx;
            if let Some(v) = tl::ledger_first_violation() {
                cx.chk(p_ledger, false, "ledger", || v);
            }
            if faulted {
                let n = tl::ledger_excuse_unstored(&stored);
                cx.add(S::fault_leaks_excused, n as u64);
            } else {
                let live = tl::ledger_live_strict();
                stored.sort_unstable();
                let mut ok = true;
                let mut msg = String::new();
                for s in &live {
                    if stored.binary_search(s).is_err() {
                        ok = false;
                        msg = format!("object #{s} is alive but neither stored nor returned (leaked)");
                        break;
                    }
                }
                cx.chk(p_leak, ok, "leak", || msg);
            }
        }
        if tl::take_may_leak() {
            self.may_leak = true;
        }
        if KD::COUNTS_LIVE {
            // zero-sized payload with drop glue: ownership by counting (created - destroyed)
            let cx = &mut *self.cx;
            let (lk, lv) = KD::live();
            let (sk, sv) = (stored_n, if false { stored_n } else { 0 });
            cx.chk(p_ledger, lk >= sk && lv >= sv, "count-double-drop", || format!("{sk} keys / {sv} values are stored but only {lk} / {lv} objects are alive: something was destroyed twice (or a dead slot is counted as live)"));
            if faulted || self.may_leak {
                KD::live_forgive(sk, sv);
            } else {
                cx.chk(p_leak, lk <= sk && lv <= sv, "count-leak", || format!("{lk} keys / {lv} values are alive but only {sk} / {sv} are stored: something was never destroyed"));
            }
            self.may_leak = false;
        }
        {
            let mis = tl::take_misaligned();
            self.cx.chk(P_ADDR.and(Prop::C02).and(Prop::C17), mis == 0, "alignment", || format!("{mis} reference(s) handed out by the library are not aligned for their type"));
        }
        if malformed && !liar && !self.cx.failed() {
            // broken container, and the armed property does not own that for this operation:
            // nothing the model says afterwards is about this property any more
            self.abandon = true;
            self.poisoned = true;
        }
        self.faulted = false;
        self.op_overflow = false;
    }

    fn drop_slot1(&mut self) -> bool {
        let mut fault = false;
        if let Some(old) = self.slots[1].take() {
            let c = old.c;
            if let Err(p) = tl::lib(move || drop(c)) {
                fault = unexpected(self.cx, self.liar, P_ALL, &p);
            }
        }
        fault
    }

    pub fn step(&mut self, raw: [u8; 4]) {
        let wts = weights(self.cx.armed);
        let opi = pick(&wts, raw[0]);
        self.cx.bump(S::ops);
        self.cx.cur_op = OP_NAMES[opi];
        self.cx.mark_op();
        let w = if raw[3] & 0x80 != 0 && self.slots[1].is_some() { 1 } else { 0 };
        self.cur_target = w;
        self.op_overflow = false;
        self.quiet0 = if self.cx.armed == Prop::C09 && matches!(opi, O_CONTAINS | O_GET | O_REMOVE | O_TAKE | O_RETAIN | O_WALK | O_FMT) {
            Some([self.slots[0].as_ref().map(|s| s.model.clone()), self.slots[1].as_ref().map(|s| s.model.clone())])
        } else {
            None
        };
        let (a, b, c) = (raw[1], raw[2], raw[3] & 0x7f);
        let lied0 = tl::liar_lies();
        match opi {
            O_INSERT | O_REPLACE => {
                let k = self.key_of(a);
                self.op_insert_k(w, opi, k)
            }
            O_CONTAINS | O_GET => self.op_lookup(w, opi, a, c),
            O_REMOVE | O_TAKE => self.op_remove(w, opi, a, c),
            O_RETAIN => self.op_retain(w, b, c),
            O_CLEAR => self.op_clear(w),
            O_DRAIN => self.op_drain(w, b, c),
            O_WALK => self.op_walk(w, a, b),
            O_CONSUME => self.op_consume(w, b, c),
            O_EXTEND => self.op_extend(w, a, b, c),
            O_CLONE => self.op_clone(a),
            O_FROM_ITER => self.op_from_iter(a, b, c),
            O_OVERFLOW => self.op_overflow_sweep(w, a, b),
            O_FMT => self.op_fmt(w, a, b),
            _ => self.op_eqsub(a),
        }
        if self.liar && tl::liar_lies() > lied0 {
            self.cx.add(S::liar_lies, tl::liar_lies() - lied0);
        }
    }

    fn op_insert_k(&mut self, w: usize, opi: usize, k: u8) {
        self.cur_target = w;
        let liar = self.liar;
        let mut fault = false;
        let mut rejected = false;
        {
            let Some(slot) = self.slots[w].as_mut() else { return };
            let cx = &mut *self.cx;
            let present = slot.model.get(&k).copied();
            let full = slot.model.len() >= N;
            if full {
                self.op_overflow = true;
            }
            let key = KD::key(k);
            let kid = KD::kid(&key);
            let m = &mut slot.c.m;
            // Ok(Ok(bool)) for insert, Ok(Err(Option<kid>)) for replace
            let r: Result<Result<bool, Option<u32>>, Pk> =
                if opi == O_INSERT { Self::lib(cx, move || m.insert(key)).map(Ok) } else { Self::lib(cx, move || m.replace(key)).map(|o| Err(o.map(|old| KD::kid(&old)))) };
            cx.log(|| format!("{}[{w}]({k}) -> {r:?}   (model: present={} full={full})", OP_NAMES[opi], present.is_some()));
            if let Some(old_kid) = present {
                cx.bump(S::inserts_replace);
                cx.bump(S::dup_key_supplied);
                self.dup_paths |= 1 << opi;
                if full {
                    cx.bump(S::replace_on_full);
                    cx.bump(S::dup_key_on_full);
                }
                match &r {
                    Ok(Ok(false)) => {}
                    Ok(Err(Some(rk))) => {
                        if KD::IDENT {
                            cx.chk(P12, *rk == old_kid, "returned-key-identity", || format!("replace handed back object #{rk}, the stored one was #{old_kid}"));
                        }
                        slot.model.insert(k, kid);
                    }
                    Err(p) => fault = unexpected(cx, liar, P07.and(Prop::C03), p),
                    other => {
                        let o = format!("{other:?}");
                        cx.chk(P07.and(Prop::C03), false, "return", || format!("{}({k}) of a present element returned {o}", OP_NAMES[opi]));
                    }
                }
            } else if !full {
                cx.bump(S::inserts_new);
                match &r {
                    Ok(Ok(true)) | Ok(Err(None)) => {
                        slot.model.insert(k, kid);
                        if slot.swapped {
                            cx.bump(S::insert_after_swap);
                        }
                        if slot.model.len() == N {
                            cx.bump(S::reached_full);
                            if slot.drained {
                                cx.bump(S::drain_refilled_full);
                                slot.drained = false;
                            }
                        }
                    }
                    Err(p) => fault = unexpected(cx, liar, P07, p),
                    other => {
                        let o = format!("{other:?}");
                        cx.chk(P07, false, "return", || format!("{}({k}) of an absent element returned {o}", OP_NAMES[opi]));
                    }
                }
            } else {
                cx.bump(S::rejected_inserts);
                rejected = true;
                match &r {
                    Err(p) if *p != Pk::Injected => {
                        cx.bump(S::lib_panics);
                        self.lib_panicked = true;
                    }
                    Err(Pk::Injected) => fault = true,
                    other => {
                        if !liar {
                            let o = format!("{other:?}");
                            cx.chk(P07.and(Prop::C03), false, "overflow-not-rejected", || format!("{}({k}) of a new element into a full set of {N}: expected a panic, got {o}", OP_NAMES[opi]));
                        }
                    }
                }
            }
            self.groups |= 1;
        }
        self.note_mut();
        self.note_fault(fault, true);
        let st = if rejected { P07.and(Prop::C03) } else { P07 };
        self.after(st, P12);
    }

    fn op_lookup(&mut self, w: usize, opi: usize, a: u8, c: u8) {
        let k = self.key_of(a);
        let form = c & 1;
        let liar = self.liar;
        let mut fault = false;
        {
            let Some(slot) = self.slots[w].as_mut() else { return };
            let cx = &mut *self.cx;
            let want = slot.model.get(&k).copied();
            cx.bump(S::lookups);
            if form == 0 {
                cx.bump(S::lookups_borrowed);
            }
            if want.is_some() {
                cx.bump(S::lookups_hit);
            }
            let qo = KD::qo(k);
            let probe = KD::key(k);
            let m = &slot.c.m;
            // (kid, address)
            let r: Result<Option<(u32, usize)>, Pk> = match (opi, form) {
                (O_CONTAINS, 0) => Self::lib(cx, || if m.contains::<KD::Q>(KD::q(&qo)) { Some((NOID, 0)) } else { None }),
                (O_CONTAINS, _) => Self::lib(cx, || if m.contains::<KD::K>(&probe) { Some((NOID, 0)) } else { None }),
                (_, 0) => Self::lib(cx, || m.get::<KD::Q>(KD::q(&qo)).map(|x| (KD::kid(x), addr(x)))),
                _ => Self::lib(cx, || m.get::<KD::K>(&probe).map(|x| (KD::kid(x), addr(x)))),
            };
            let probe_id = KD::kid(&probe);
            drop(probe);
            cx.log(|| format!("{}[{w}]({k}, form {form}) -> {r:?}   (model {want:?})", OP_NAMES[opi]));
            match (&r, want) {
                (Ok(Some(g)), Some(kid)) => {
                    if opi == O_GET {
                        if KD::IDENT {
                            cx.chk(P12, g.0 == kid && g.0 != probe_id, "exposed-key-identity", || format!("get exposes object #{}, stored is #{kid}", g.0));
                        }
                        cx.bump(S::addr_checks);
                        cx.chk(P_ADDR, slot.c.contains(g.1, std::mem::size_of::<KD::K>()), "addr", || "get returns a reference outside the container".into());
                    }
                }
                (Ok(None), None) => {}
                (Err(Pk::Injected), _) => fault = true,
                (other, _) => {
                    if !liar {
                        let o = format!("{other:?}");
                        cx.chk(P07, false, "lookup", || format!("{}({k}) gave {o}, model has {want:?}", OP_NAMES[opi]));
                    }
                }
            }
            self.groups |= 2;
        }
        self.note_fault(fault, false);
        self.after(P07, P12);
    }

    fn op_remove(&mut self, w: usize, opi: usize, a: u8, c: u8) {
        let k = self.key_of(a);
        let form = c & 1;
        let liar = self.liar;
        let mut fault = false;
        {
            let Some(slot) = self.slots[w].as_mut() else { return };
            let cx = &mut *self.cx;
            let want = slot.model.get(&k).copied();
            let qo = KD::qo(k);
            let probe = KD::key(k);
            let m = &mut slot.c.m;
            let r: Result<Option<u32>, Pk> = match (opi, form) {
                (O_REMOVE, 0) => Self::lib(cx, || if m.remove::<KD::Q>(KD::q(&qo)) { Some(NOID) } else { None }),
                (O_REMOVE, _) => Self::lib(cx, || if m.remove::<KD::K>(&probe) { Some(NOID) } else { None }),
                (_, 0) => Self::lib(cx, || m.take::<KD::Q>(KD::q(&qo))).map(|o| o.map(|x| KD::kid(&x))),
                _ => Self::lib(cx, || m.take::<KD::K>(&probe)).map(|o| o.map(|x| KD::kid(&x))),
            };
            drop(probe);
            cx.log(|| format!("{}[{w}]({k}) -> {r:?}   (model {want:?})", OP_NAMES[opi]));
            match (&r, want) {
                (Ok(Some(g)), Some(kid)) => {
                    if opi == O_TAKE && KD::IDENT {
                        cx.chk(P12, *g == kid, "exposed-key-identity", || format!("take returned object #{g}, stored was #{kid}"));
                    }
                    cx.bump(S::removals);
                    if slot.order.last() != Some(&k) {
                        cx.bump(S::swap_removals);
                        slot.swapped = true;
                    }
                    slot.model.remove(&k);
                }
                (Ok(None), None) => {}
                (Err(Pk::Injected), _) => fault = true,
                (other, _) => {
                    if !liar {
                        let o = format!("{other:?}");
                        cx.chk(P07, false, "return", || format!("{}({k}) gave {o}, model has {want:?}", OP_NAMES[opi]));
                    }
                    if other.is_ok() {
                        slot.model.remove(&k);
                    }
                }
            }
            self.groups |= 4;
        }
        self.note_mut();
        self.note_fault(fault, true);
        self.after(P07, P12);
    }

    fn op_retain(&mut self, b: usize, bb: u8, c: u8) {
        let w = b;
        let mask: u32 = bb as u32 | ((c as u32) << 8);
        let liar = self.liar;
        let mut fault = false;
        {
            let Some(slot) = self.slots[w].as_mut() else { return };
            let cx = &mut *self.cx;
            let keep = |raw: u8| (mask >> (raw % 15)) & 1 == 1;
            let m = &mut slot.c.m;
            let mut seen_refs: Vec<usize> = Vec::with_capacity(N + 2);
            // positional predicate (stateful FnMut): the verdict depends on the number of elements
            // visited before; the model follows the verdicts actually given
            let positional = mask & 0x8000 != 0;
            let mut visits = [0u8; 256];
            let mut verdict = [false; 256];
            let mut calls = 0u32;
            let r = Self::lib(cx, || {
                m.retain(|kk| {
                    tl::tick(Cb::Pred);
                    if seen_refs.len() < seen_refs.capacity() {
                        seen_refs.push(addr(kk));
                    }
                    let raw = KD::kraw(kk);
                    visits[raw as usize] = visits[raw as usize].saturating_add(1);
                    let kp = if positional { (mask >> (calls % 15)) & 1 == 1 } else { keep(raw) };
                    calls += 1;
                    verdict[raw as usize] = kp;
                    kp
                })
            });
            cx.log(|| format!("retain[{w}](mask {mask:#x}) -> {r:?}"));
            cx.bump(S::retains);
            for ka in &seen_refs {
                cx.bump(S::addr_checks);
                cx.chk(P_ADDR, slot.c.contains(*ka, std::mem::size_of::<KD::K>()), "addr", || "retain handed its predicate a reference that points outside the container value".into());
            }
            match r {
                Ok(()) => {
                    let keys: Vec<u8> = slot.model.keys().copied().collect();
                    let before = keys.len();
                    if !liar {
                        // an ideal set puts every element to the predicate exactly once
                        for raw in 0..=255u8 {
                            let want = if slot.model.contains_key(&raw) { 1 } else { 0 };
                            let got = visits[raw as usize];
                            cx.chk(P07, got == want, "retain-visits", || format!("retain called its predicate {got} time(s) for element {raw} (stored: {})", want == 1));
                        }
                    }
                    for kk in keys {
                        if !verdict[kk as usize] {
                            if slot.order.last() != Some(&kk) {
                                slot.swapped = true;
                                cx.bump(S::swap_removals);
                            }
                            slot.model.remove(&kk);
                        }
                    }
                    if slot.model.len() < before {
                        cx.bump(S::retain_removed);
                    }
                }
                Err(p) => fault = unexpected(cx, liar, P07, &p),
            }
            self.groups |= 4;
        }
        self.note_mut();
        self.note_fault(fault, true);
        self.after(P07, P12);
    }

    fn op_clear(&mut self, w: usize) {
        let liar = self.liar;
        let mut fault = false;
        {
            let Some(slot) = self.slots[w].as_mut() else { return };
            let cx = &mut *self.cx;
            let m = &mut slot.c.m;
            let r = Self::lib(cx, || m.clear());
            cx.log(|| format!("clear[{w}]() -> {r:?}"));
            cx.bump(S::clears);
            match r {
                Ok(()) => slot.model.clear(),
                Err(p) => fault = unexpected(cx, liar, P07, &p),
            }
            self.groups |= 4;
        }
        self.note_mut();
        self.note_fault(fault, true);
        self.after(P07, P12);
    }

    fn op_drain(&mut self, w: usize, b: u8, c: u8) {
        let liar = self.liar;
        let mut fault = false;
        {
            let Some(slot) = self.slots[w].as_mut() else { return };
            let cx = &mut *self.cx;
            let pre = Self::observe(&slot.c).unwrap_or_default();
            let before = slot.model.clone();
            let n = if liar { pre.len() } else { before.len() };
            let take = scale(b, n + 2);
            // 0 drop, 1 run to the end, 2 forget, 3.. = adaptor probe (nth/last/fold/count/skip) on the rest
            let end = (c as usize * (3 + mmv_base::probe::NPROBES)) >> 7;
            let pk = ((c & 0x0f) as usize * (n + 2)) >> 4;
            cx.bump(S::drains);
            if take > 0 && take < n && end != 1 {
                cx.bump(S::partial_drains);
            }
            let mut ys: Vec<(u8, u32)> = Vec::with_capacity(n + 4);
            let mut hints: Vec<(usize, (usize, Option<usize>))> = Vec::with_capacity(n + 4);
            let m = &mut slot.c.m;
            let mut rv = mmv_base::probe::Roving::new(m.drain());
            let mut ended = false;
            let mut steps = 0;
            loop {
                if steps >= take && end != 1 {
                    break;
                }
                if ended {
                    break;
                }
                if steps == 1 {
                    // a partially consumed drain is moved to another place (old place overwritten)
                    rv.relocate();
                    cx.bump(S::relocations);
                }
                let d = rv.get();
                hints.push(mmv_base::probe::hint_of(&d));
                match Self::lib(cx, || d.next()) {
                    Ok(Some(k)) => ys.push((KD::kraw(&k), KD::kid(&k))),
                    Ok(None) => ended = true,
                    Err(p) => {
                        fault |= unexpected(cx, liar, P10, &p);
                        break;
                    }
                }
                steps += 1;
                if steps > n + 4 {
                    cx.chk(P10, false, "overlong", || "drain yields more items than the set held".into());
                    break;
                }
            }
            let mut d = rv.into_inner();
            if ended {
                if ended {
                    for _ in 0..3 {
                        let none = mmv_base::probe::ended_none(&mut d);
                        cx.chk(P10, none, "not-fused", || "drain yielded an item after returning None".into());
                    }
                    {
                        // after the end the exact-size report is 0 (len(), size_hint()), not an underflowed cursor
                        let h = mmv_base::probe::hint_of(&d);
                        cx.chk(P10, h == (0, (0, Some(0))), "exact-len", || format!("after the end: len()={} size_hint={:?}", h.0, h.1));
                    }
                }
            }
            if end == 2 {
                cx.bump(S::forgets);
                std::mem::forget(d);
                    tl::mark_may_leak();
                if KD::TRACKED {
                    for o in &pre {
                        if !ys.iter().any(|y| y.1 == o.kid) {
                            tl::ledger_mark_may_leak(o.kid);
                        }
                    }
                }
            } else if end >= 3 && !ended && !fault {
                let po: ProbeOut<(u8, u32)> = probe(cx, KD::NOALLOC, d, end - 3, pk, N, |k: KD::K| (KD::kraw(&k), KD::kid(&k)));
                if po.panicked == Some(Pk::Injected) {
                    fault = true;
                } else if !liar {
                    let rest: Vec<(u8, u32)> = before.iter().filter(|(k, _)| !ys.iter().any(|y| y.0 == **k)).map(|(k, id)| (*k, if KD::IDENT { *id } else { NOID })).collect();
                    let r = check_multiset(&po, &rest, true);
                    cx.chk(P10, r.is_ok(), "adaptor", || format!("Set::drain after {} of {n} items: {}", ys.len(), r.clone().err().unwrap_or_default()));
                }
            } else if let Err(p) = Self::lib(cx, move || drop(d)) {
                fault |= unexpected(cx, liar, P10, &p);
            }
            cx.log(|| format!("drain[{w}] take {take} end {end} of {n}: yielded {:?}", ys.iter().map(|y| y.0).collect::<Vec<_>>()));
            if !liar {
                for (i, h) in hints.iter().enumerate() {
                    let rem = n.saturating_sub(i);
                    cx.chk(P10, h.0 == rem && h.1 == (rem, Some(rem)), "exact-len", || format!("drain after {i} of {n} items: len()={} size_hint={:?}", h.0, h.1));
                }
                for (i, y) in ys.iter().enumerate() {
                    cx.chk(P10, !ys[..i].iter().any(|z| z.0 == y.0), "repeat", || format!("drain yielded {} twice", y.0));
                    match before.get(&y.0) {
                        Some(kid) => {
                            if KD::IDENT {
                                cx.chk(P12, *kid == y.1, "exposed-key-identity", || format!("drain yielded object #{}, stored was #{kid}", y.1));
                            }
                        }
                        None => {
                            cx.chk(P10, false, "yield", || format!("drain yielded {} which the set did not hold", y.0));
                        }
                    }
                }
                if end == 1 && !fault {
                    cx.chk(P10, ys.len() == n, "incomplete", || format!("drain run to the end yielded {} of {n}", ys.len()));
                }
            }
            slot.model.clear();
            if end == 2 && !liar {
                // forgotten drain: nothing handed out may still be a member; what remains is a
                // subset of the elements that were not handed out (see maphist::op_drain)
                let post = Self::observe(&slot.c).unwrap_or_default();
                let owners = P10.and(Prop::C07).and(Prop::C02);
                for o in &post {
                    let handed_out = ys.iter().any(|y| y.0 == o.raw);
                    cx.chk(owners, !handed_out, "forgotten-drain", || format!("element {} was yielded by the drain and is still in the set after the drain was forgotten", o.raw));
                    match before.get(&o.raw) {
                        Some(kid) if !handed_out => {
                            cx.chk(owners, !KD::IDENT || *kid == o.kid, "forgotten-drain", || format!("element {} is stored as a different object after a forgotten drain", o.raw));
                            slot.model.insert(o.raw, *kid);
                        }
                        Some(_) => {}
                        None => {
                            cx.chk(owners, false, "forgotten-drain", || format!("element {} is in the set after a forgotten drain but the set did not hold it", o.raw));
                        }
                    }
                }
            }
            slot.drained = true;
            self.groups |= 8;
        }
        self.note_mut();
        self.note_fault(fault, true);
        self.after(P10.and(Prop::C07), P12);
    }

    fn op_walk(&mut self, w: usize, a: u8, b: u8) {
        let liar = self.liar;
        let mut fault = false;
        {
            let Some(slot) = self.slots[w].as_mut() else { return };
            let cx = &mut *self.cx;
            let kind = a & 1;
            let n = slot.model.len();
            let cut = scale(b, n + 2);
            cx.bump(S::walks);
            if n >= 2 && slot.swapped && cut > 0 && cut < n {
                cx.bump(S::walks_cut_inside_after_swap);
            }
            let m = &slot.c.m;
            let mut it = if kind == 0 { m.iter() } else { m.into_iter() };
            let name = if kind == 0 { "Set::iter()" } else { "(&set).into_iter()" };
            let mut ys: Vec<Obs> = Vec::with_capacity(N + 8);
            let mut hints: Vec<(usize, (usize, Option<usize>))> = Vec::with_capacity(N + 8);
            let mut crest: Option<Vec<usize>> = None;
            let mut ccount: Option<usize> = None;
            let mut pout: Option<ProbeOut<usize>> = None;
            let pwhich = ((a >> 4) as usize * mmv_base::probe::NPROBES) >> 4;
            let pk = (((a >> 1) & 0x0f) as usize * (n + 2)) >> 4;
            loop {
                hints.push(mmv_base::probe::hint_of(&it));
                if ys.len() == cut {
                    pout = Some(probe(cx, KD::NOALLOC, it.clone(), pwhich, pk, N, |k: &KD::K| addr(k)));
                    let c1 = it.clone();
                    ccount = Self::lib(cx, move || c1.count()).ok();
                    crest = Some(it.clone().map(|k| addr(k)).collect());
                }
                match Self::lib(cx, || it.next()) {
                    Ok(Some(k)) => ys.push(Obs { raw: KD::kraw(k), kid: KD::kid(k), ka: addr(k), live: true }),
                    Ok(None) => break,
                    Err(p) => {
                        fault |= unexpected(cx, liar, P09, &p);
                        break;
                    }
                }
                if ys.len() > N + 4 {
                    cx.chk(P09, false, "overlong", || format!("{name} yields more items than the capacity"));
                    break;
                }
            }
            for _ in 0..3 {
                let none = mmv_base::probe::ended_none(&mut it);
                cx.chk(P09, none, "not-fused", || format!("{name} yielded an item after returning None"));
            }
            {
                // after the end the exact-size report is 0 (len(), size_hint()), not an underflowed cursor
                let h = mmv_base::probe::hint_of(&it);
                cx.chk(P09, h == (0, (0, Some(0))), "exact-len", || format!("after the end: len()={} size_hint={:?}", h.0, h.1));
            }
            let total = ys.len();
            cx.log(|| format!("walk[{w}] {name} cut {cut}: {:?}", ys.iter().map(|y| y.raw).collect::<Vec<_>>()));
            if !liar && !fault {
                for (i, h) in hints.iter().enumerate() {
                    let rem = total.saturating_sub(i);
                    cx.chk(P09, h.0 == rem && h.1 == (rem, Some(rem)), "exact-len", || format!("{name} after {i} of {total} items: len()={} size_hint={:?}", h.0, h.1));
                }
                if let Some(cr) = &crest {
                    let rest: Vec<usize> = ys[cut.min(total)..].iter().map(|y| y.ka).collect();
                    cx.chk(P09, *cr == rest, "clone-continues", || format!("a clone of {name} taken after {cut} items continues differently"));
                    cx.chk(P09, ccount == Some(total - cut.min(total)), "count", || format!("{name}: count() after {cut} of {total} = {ccount:?}"));
                }
                if let Some(po) = &pout {
                    let rest: Vec<usize> = ys[cut.min(total)..].iter().map(|y| y.ka).collect();
                    let r = check_ordered(po, &rest, true);
                    cx.chk(P09, r.is_ok(), "adaptor", || format!("{name} after {cut} of {total} items: {}", r.clone().err().unwrap_or_default()));
                }
                cx.chk(P09, total == slot.model.len(), "coverage", || format!("{name} yielded {total} items, the set holds {}", slot.model.len()));
                for (i, y) in ys.iter().enumerate() {
                    cx.chk(P09, !ys[..i].iter().any(|z| z.raw == y.raw), "repeat", || format!("{name} yielded {} twice", y.raw));
                    match slot.model.get(&y.raw) {
                        Some(kid) => {
                            if KD::IDENT {
                                cx.chk(P12.and(Prop::C09), *kid == y.kid, "exposed-key-identity", || format!("{name} yielded object #{}, stored is #{kid}", y.kid));
                            }
                        }
                        None => {
                            cx.chk(P09, false, "yield", || format!("{name} yielded {} which is not stored", y.raw));
                        }
                    }
                    cx.bump(S::addr_checks);
                    cx.chk(P_ADDR, slot.c.contains(y.ka, std::mem::size_of::<KD::K>()), "addr", || format!("{name} yields a reference outside the container"));
                }
                let second: Vec<usize> = slot.c.m.iter().map(|k| addr(k)).collect();
                let first: Vec<usize> = ys.iter().map(|y| y.ka).collect();
                cx.chk(P09, first == second, "order-stable", || format!("two traversals of {name} without a mutation yield different orders"));
            }
            self.groups |= 8;
        }
        self.note_fault(fault, false);
        self.after(P09, P12);
    }

    fn op_consume(&mut self, w: usize, b: u8, c: u8) {
        let liar = self.liar;
        let mut fault = false;
        {
            let Some(slot) = self.slots[w].as_mut() else { return };
            let cx = &mut *self.cx;
            let pre = Self::observe(&slot.c).unwrap_or_default();
            let before = std::mem::take(&mut slot.model);
            let n = if liar { pre.len() } else { before.len() };
            let take = scale(b, n + 2);
            let end = (c as usize * (3 + mmv_base::probe::NPROBES)) >> 7;
            let pk = ((c & 0x0f) as usize * (n + 2)) >> 4;
            cx.bump(S::consumes);
            if take > 0 && take < n && end != 1 {
                cx.bump(S::partial_consumes);
            }
            let owned: St<KD, N> = std::mem::replace(&mut slot.c.m, Set::new());
            let mut rv = mmv_base::probe::Roving::new(owned.into_iter());
            let mut ys: Vec<(u8, u32)> = Vec::with_capacity(n + 4);
            let mut hints: Vec<(usize, (usize, Option<usize>))> = Vec::with_capacity(n + 4);
            let mut ended = false;
            let mut steps = 0;
            loop {
                if (steps >= take && end != 1) || ended {
                    break;
                }
                if steps == 1 {
                    // a partially consumed iterator is moved to another place (old place overwritten)
                    rv.relocate();
                    cx.bump(S::relocations);
                }
                let it = rv.get();
                hints.push(mmv_base::probe::hint_of(&it));
                match Self::lib(cx, || it.next()) {
                    Ok(Some(k)) => ys.push((KD::kraw(&k), KD::kid(&k))),
                    Ok(None) => ended = true,
                    Err(p) => {
                        fault |= unexpected(cx, liar, P10, &p);
                        break;
                    }
                }
                steps += 1;
                if steps > n + 4 {
                    cx.chk(P10, false, "overlong", || "Set::into_iter yields more items than the set held".into());
                    break;
                }
            }
            let mut it = rv.into_inner();
            if ended {
                if ended {
                    for _ in 0..3 {
                        let none = mmv_base::probe::ended_none(&mut it);
                        cx.chk(P10, none, "not-fused", || "Set::into_iter yielded an item after returning None".into());
                    }
                    {
                        // after the end the exact-size report is 0 (len(), size_hint()), not an underflowed cursor
                        let h = mmv_base::probe::hint_of(&it);
                        cx.chk(P10, h == (0, (0, Some(0))), "exact-len", || format!("after the end: len()={} size_hint={:?}", h.0, h.1));
                    }
                }
            }
            if end == 2 {
                cx.bump(S::forgets);
                std::mem::forget(it);
                    tl::mark_may_leak();
                if KD::TRACKED {
                    for o in &pre {
                        if !ys.iter().any(|y| y.1 == o.kid) {
                            tl::ledger_mark_may_leak(o.kid);
                        }
                    }
                }
            } else if end >= 3 && !ended && !fault {
                let po: ProbeOut<(u8, u32)> = probe(cx, KD::NOALLOC, it, end - 3, pk, N, |k: KD::K| (KD::kraw(&k), KD::kid(&k)));
                if po.panicked == Some(Pk::Injected) {
                    fault = true;
                } else if !liar {
                    let rest: Vec<(u8, u32)> = before.iter().filter(|(k, _)| !ys.iter().any(|y| y.0 == **k)).map(|(k, id)| (*k, if KD::IDENT { *id } else { NOID })).collect();
                    let r = check_multiset(&po, &rest, true);
                    cx.chk(P10.and(Prop::C05), r.is_ok(), "adaptor", || format!("Set::into_iter after {} of {n} items: {}", ys.len(), r.clone().err().unwrap_or_default()));
                }
            } else if let Err(p) = Self::lib(cx, move || drop(it)) {
                fault |= unexpected(cx, liar, P10, &p);
            }
            cx.log(|| format!("consume[{w}] into_iter take {take} end {end} of {n}: {:?}", ys.iter().map(|y| y.0).collect::<Vec<_>>()));
            if !liar {
                for (i, h) in hints.iter().enumerate() {
                    let rem = n.saturating_sub(i);
                    cx.chk(P10, h.0 == rem && h.1 == (rem, Some(rem)), "exact-len", || format!("Set::into_iter after {i} of {n} items: len()={} size_hint={:?}", h.0, h.1));
                }
                for (i, y) in ys.iter().enumerate() {
                    cx.chk(P10, !ys[..i].iter().any(|z| z.0 == y.0), "repeat", || format!("Set::into_iter yielded {} twice", y.0));
                    match before.get(&y.0) {
                        Some(kid) => {
                            if KD::IDENT {
                                cx.chk(P12, *kid == y.1, "exposed-key-identity", || format!("Set::into_iter yielded object #{}, stored was #{kid}", y.1));
                            }
                        }
                        None => {
                            cx.chk(P10, false, "yield", || format!("Set::into_iter yielded {} which the set did not hold", y.0));
                        }
                    }
                }
                if end == 1 && !fault {
                    cx.chk(P10, ys.len() == n, "incomplete", || format!("Set::into_iter run to the end yielded {} of {n}", ys.len()));
                }
            }
            self.groups |= 8;
        }
        self.note_mut();
        self.note_fault(fault, true);
        self.after(P10, P12);
    }

    /// item keys from a small LCG so repeats are frequent
    fn gen_keys(&self, a: u8, b: u8, len: usize) -> Vec<u8> {
        let u = self.univ as u32;
        let mut x = (a as u32) << 8 | b as u32 | 0x10000;
        (0..len)
            .map(|_| {
                x = x.wrapping_mul(1103515245).wrapping_add(12345);
                ((x >> 16) % u) as u8
            })
            .collect()
    }

    fn op_extend(&mut self, w: usize, a: u8, b: u8, c: u8) {
        let liar = self.liar;
        let mut fault = false;
        let len = scale(c.wrapping_mul(2), 2 * N + 3);
        let keys = self.gen_keys(a, b, len);
        let by_ref = KD::K::IS_COPY && (a & 1 == 1);
        let hint = b >> 3;
        // a source with an untruthful size_hint: C16 / C07 (about well-behaved sources) stand back,
        // the capacity check (C03) and the standing memory-safety invariants stay armed
        let lying = hint & 0x18 == 0x18;
        let p16 = if lying { PS::NONE } else { P16 };
        let p07 = if lying { PS::NONE } else { PS::of(Prop::C07) };
        let univ = self.univ;
        {
            let Some(slot) = self.slots[w].as_mut() else { return };
            let cx = &mut *self.cx;
            // model fold
            let mut want = slot.model.clone();
            let mut overflow_at = None;
            let items: Vec<KD::K> = keys.iter().map(|k| KD::key(*k)).collect();
            let ids: Vec<u32> = items.iter().map(|k| KD::kid(k)).collect();
            for (i, k) in keys.iter().enumerate() {
                if want.contains_key(k) {
                    continue;
                }
                if want.len() < N {
                    want.insert(*k, ids[i]);
                } else {
                    overflow_at = Some(i);
                    break;
                }
            }
            cx.bump(S::bulk_calls);
            if lying {
                cx.bump(S::bulk_lying_hints);
            }
            if overflow_at.is_none() && slot.model.len() + len > N {
                cx.bump(S::bulk_longer_than_n);
            }
            if overflow_at.is_some() {
                cx.bump(S::bulk_overflow);
                self.op_overflow = true;
            }
            let pulled = Cell::new(0usize);
            // non-fused source: an element (absent from the expected result) it would yield if
            // polled again after None
            let mut after: Vec<KD::K> = Vec::new();
            if hint & 4 != 0 && !by_ref && overflow_at.is_none() {
                if let Some(k) = (0..univ).find(|k| !want.contains_key(k)) {
                    after.push(KD::key(k));
                    cx.bump(S::bulk_nonfused_sources);
                }
            }
            let m = &mut slot.c.m;
            let r = if by_ref {
                let refs: Vec<&KD::K> = items.iter().collect();
                let src = Src { it: refs.into_iter(), pulled: &pulled, hint, after: vec![], ended: false };
                Self::lib(cx, || KD::K::extend_by_ref(m, src))
            } else {
                let src = Src { it: items.into_iter(), pulled: &pulled, hint, after, ended: false };
                Self::lib(cx, || m.extend(src))
            };
            cx.log(|| format!("extend{}[{w}]({keys:?}) -> {r:?}   (model: overflow at {overflow_at:?})", if by_ref { "(&T)" } else { "" }));
            match r {
                Ok(()) => {
                    if !liar {
                        cx.chk(p16.union(p07).and(Prop::C03), overflow_at.is_none(), "overflow-not-rejected", || format!("extend accepted more than {N} distinct elements"));
                        let p = pulled.get();
                        cx.chk(p16, p == len, "source-consumption", || format!("the source yielded {len} items but {p} were pulled"));
                    }
                    if by_ref {
                        // copies are stored: identities are not observable for Copy payloads
                        for (k, v) in want.iter_mut() {
                            if !slot.model.contains_key(k) {
                                *v = NOID;
                            }
                        }
                    }
                    slot.model = want;
                    if slot.model.len() == N {
                        cx.bump(S::reached_full);
                    }
                }
                Err(p) if p != Pk::Injected => {
                    cx.bump(S::lib_panics);
                    self.lib_panicked = true;
                    if !liar {
                        // C03 owns it when the set was (or became) full and present elements kept arriving
                        let owner = if lying { PS::NONE } else if overflow_at.is_some() || want.len() == N { P16.and(Prop::C03).and(Prop::C07) } else { P16.and(Prop::C07) };
                        cx.chk(owner, overflow_at.is_some(), "spurious-overflow", || format!("extend panicked although the result has at most {N} distinct elements"));
                    }
                    // partial effect: everything before the overflow point was inserted
                    if let Some(at) = overflow_at {
                        for (i, k) in keys.iter().enumerate().take(at) {
                            if !slot.model.contains_key(k) {
                                slot.model.insert(*k, ids[i]);
                            }
                        }
                    }
                }
                Err(p) => fault = unexpected(cx, liar, p16, &p),
            }
            self.groups |= 1;
        }
        self.note_mut();
        self.note_fault(fault, true);
        if lying {
            self.after(PS::NONE, PS::NONE);
        } else {
            self.after(P16.and(Prop::C07).and(Prop::C03), P16.and(Prop::C12));
        }
    }

    fn op_clone(&mut self, a: u8) {
        let sub = scale(a, 8);
        let liar = self.liar;
        let mut fault = false;
        match sub {
            5 => {
                fault |= self.drop_slot1();
                self.cloned = false;
            }
            6 => {
                if self.slots[1].is_some() {
                    self.slots.swap(0, 1);
                }
            }
            4 | 7 if self.slots[1].is_some() => {
                // dst.clone_from(&src) into an existing set
                let (di, si) = if sub == 7 { (1, 0) } else { (0, 1) };
                let (a0, a1) = self.slots.split_at_mut(1);
                let (dst, src) = if di == 1 { (a1[0].as_mut().unwrap(), a0[0].as_ref().unwrap()) } else { (a0[0].as_mut().unwrap(), a1[0].as_ref().unwrap()) };
                let cx = &mut *self.cx;
                let (nd, ns) = (dst.model.len(), src.model.len());
                cx.bump(S::clones);
                cx.bump(S::clone_froms);
                if nd > ns {
                    cx.bump(S::clone_from_shrinks);
                }
                if ns >= 2 {
                    cx.bump(S::clones_ge2);
                }
                let dm = &mut dst.c.m;
                let r = Self::lib(cx, || dm.clone_from(&src.c.m));
                cx.log(|| format!("slot{di}.clone_from(slot{si}) ({nd} <- {ns} elements) -> {}", if r.is_ok() { "ok" } else { "panic" }));
                match r {
                    Ok(()) => {
                        let obs = Self::observe(&dst.c).unwrap_or_default();
                        dst.model.clear();
                        for raw in src.model.keys() {
                            let id = obs.iter().find(|o| o.raw == *raw).map(|o| o.kid).unwrap_or(NOID);
                            dst.model.insert(*raw, id);
                        }
                        if !liar {
                            let eq = Self::lib(cx, || dst.c.m == src.c.m);
                            cx.chk(P15, eq == Ok(true), "clone-equal", || format!("after dst.clone_from(&src), dst == src gives {eq:?}"));
                        }
                        dst.swapped = false;
                        self.cloned = true;
                        self.mutated_after_clone = false;
                    }
                    Err(p) => fault |= unexpected(cx, liar, P15, &p),
                }
            }
            _ => {
                fault |= self.drop_slot1();
                let src = self.slots[0].as_ref().unwrap();
                let cx = &mut *self.cx;
                let n = src.model.len();
                cx.bump(S::clones);
                if n >= 2 {
                    cx.bump(S::clones_ge2);
                }
                if n == N {
                    cx.bump(S::clones_full);
                }
                if n == 0 {
                    cx.bump(S::clones_empty);
                }
                let counts0 = if KD::TRACKED { tl::ledger_clone_counts() } else { vec![] };
                let calls0 = KD::clone_calls();
                let gens0: Vec<(u8, u32)> = if KD::COUNTS_CLONES { tl::quiet(|| src.c.m.iter().map(|k| (KD::kraw(k), KD::kgen(k))).collect()).unwrap_or_default() } else { vec![] };
                let r = Self::lib(cx, || src.c.m.clone());
                cx.log(|| format!("clone primary ({n} elements) -> {}", if r.is_ok() { "ok" } else { "panic" }));
                match r {
                    Ok(ns) => {
                        let mut slot: Slot<KD, N> = Slot::new();
                        *slot.c = Caged::new(ns);
                        let obs = Self::observe(&slot.c).unwrap_or_default();
                        if KD::COUNTS_CLONES && !liar {
                            let d = KD::clone_calls() - calls0;
                            cx.chk(P15, d == n as u64, "clone-count", || format!("clone() of {n} elements made {d} Clone::clone calls"));
                            // (a set stores (T, ()): one counted clone per element)
                            let gens1: Vec<(u8, u32)> = tl::quiet(|| slot.c.m.iter().map(|k| (KD::kraw(k), KD::kgen(k))).collect()).unwrap_or_default();
                            for (raw, g) in gens0.iter().filter(|_| KD::STAMPS_GEN) {
                                let got = gens1.iter().find(|x| x.0 == *raw).map(|x| x.1);
                                cx.chk(P15, got == Some(g + 1), "clone-origin", || format!("element {raw} of the clone is not a Clone::clone of the original element (generation {got:?}, original {g})"));
                            }
                        }
                        if KD::TRACKED && !liar {
                            let counts1 = tl::ledger_clone_counts();
                            let stored: Vec<u32> = src.model.values().copied().collect();
                            for (i, c0) in counts0.iter().enumerate() {
                                let d = counts1[i] - c0;
                                let want = if stored.contains(&(i as u32)) { 1 } else { 0 };
                                cx.chk(P15, d == want, "clone-count", || format!("object #{i} was cloned {d} time(s) during clone(), expected {want}"));
                            }
                            let created = counts1.len() - counts0.len();
                            cx.chk(P15, created == n, "clone-count", || format!("clone() of {n} elements created {created} objects"));
                        }
                        for (raw, kid) in &src.model {
                            let o = obs.iter().find(|o| o.raw == *raw);
                            let id = match o {
                                Some(o) => {
                                    if KD::TRACKED && !liar {
                                        let from = tl::ledger_obj(o.kid).map(|x| x.from);
                                        cx.chk(P15, from == Some(*kid), "clone-origin", || format!("element {raw} of the clone was not cloned from the original's own element"));
                                    }
                                    o.kid
                                }
                                None => NOID,
                            };
                            slot.model.insert(*raw, id);
                        }
                        if !liar {
                            let eq = Self::lib(cx, || slot.c.m == src.c.m);
                            cx.chk(P15, eq == Ok(true), "clone-equal", || format!("clone == original gives {eq:?}"));
                        }
                        self.slots[1] = Some(slot);
                        self.cloned = true;
                        self.mutated_after_clone = false;
                    }
                    Err(p) => fault |= unexpected(cx, liar, P15, &p),
                }
            }
        }
        self.note_fault(fault, true);
        self.cur_target = 2;
        self.after(P15, P15);
    }

    fn op_from_iter(&mut self, a: u8, b: u8, c: u8) {
        let liar = self.liar;
        let mut fault = self.drop_slot1();
        self.cloned = false;
        // c is a 7-bit argument (the top bit of the byte selects the container)
        let sub = (c as usize * 3) >> 7;
        let hint = c;
        let lying = hint & 0x18 == 0x18 && sub != 2;
        let p16 = if lying { PS::NONE } else { P16 };
        let len = if sub == 2 { N } else { scale(a, 3 * N + 3) };
        let keys = self.gen_keys(a, b, len);
        let cx = &mut *self.cx;
        let mut want: Vec<(u8, usize)> = Vec::new();
        let mut overflow_at = None;
        for (i, k) in keys.iter().enumerate() {
            if want.iter().any(|e| e.0 == *k) {
                continue;
            }
            if want.len() < N {
                want.push((*k, i));
            } else {
                overflow_at = Some(i);
                break;
            }
        }
        cx.bump(S::bulk_calls);
        if lying {
            cx.bump(S::bulk_lying_hints);
        }
        if len > N && overflow_at.is_none() {
            cx.bump(S::bulk_longer_than_n);
        }
        let mut repeat_after_full = false;
        if overflow_at.is_none() && want.len() == N && N > 0 {
            let full_at = want.iter().map(|e| e.1).max().unwrap_or(0);
            repeat_after_full = keys.iter().enumerate().any(|(i, _)| i > full_at);
            if keys.iter().enumerate().any(|(i, k)| i > full_at && *k == keys[0]) {
                cx.bump(S::bulk_repeat_after_full);
            }
        }
        if overflow_at.is_some() {
            cx.bump(S::bulk_overflow);
            self.op_overflow = true;
        }
        let items: Vec<KD::K> = keys.iter().map(|k| KD::key(*k)).collect();
        let ids: Vec<u32> = items.iter().map(|k| KD::kid(k)).collect();
        let pulled = Cell::new(0usize);
        let mut after: Vec<KD::K> = Vec::new();
        if hint & 4 != 0 && sub != 2 && overflow_at.is_none() {
            let univ = self.univ;
            if let Some(k) = (0..univ).find(|k| !want.iter().any(|e| e.0 == *k)) {
                after.push(KD::key(k));
                cx.bump(S::bulk_nonfused_sources);
            }
        }
        let r: Result<St<KD, N>, Pk> = match sub {
            0 => {
                let src = Src { it: items.into_iter(), pulled: &pulled, hint, after, ended: false };
                Self::lib(cx, || St::<KD, N>::from_iter(src))
            }
            1 => {
                let src = Src { it: items.into_iter(), pulled: &pulled, hint, after, ended: false };
                Self::lib(cx, || src.collect::<St<KD, N>>())
            }
            _ => {
                let mut it = items.into_iter();
                let arr: [KD::K; N] = core::array::from_fn(|_| it.next().unwrap());
                pulled.set(N);
                Self::lib(cx, || St::<KD, N>::from(arr))
            }
        };
        let names = ["Set::from_iter", "collect::<Set>", "Set::from([_; N])"];
        cx.log(|| format!("{}({keys:?}) into N={N} -> {}   (model: overflow at {overflow_at:?})", names[sub], match &r { Ok(m) => format!("ok len {}", m.len()), Err(p) => p.name() }));
        match r {
            Ok(ns) => {
                let mut slot: Slot<KD, N> = Slot::new();
                *slot.c = Caged::new(ns);
                if !liar {
                    cx.chk(p16.and(Prop::C03), overflow_at.is_none(), "overflow-not-rejected", || format!("{} distinct elements were accepted by a set of {N}", want.len() + 1));
                    if sub != 2 {
                        let p = pulled.get();
                        cx.chk(p16, p == len, "source-consumption", || format!("the source yielded {len} items but {p} were pulled"));
                    }
                    for e in &want {
                        slot.model.insert(e.0, ids[e.1]);
                    }
                    if overflow_at.is_none() {
                        // differential: one-by-one insertion
                        let mut refs: St<KD, N> = Set::new();
                        let mut rids: Vec<u32> = Vec::new();
                        let ok = tl::quiet(|| {
                            for k in keys.iter() {
                                let kk = KD::key(*k);
                                rids.push(KD::kid(&kk));
                                refs.insert(kk);
                            }
                        });
                        if ok.is_ok() {
                            let obs = Self::observe(&slot.c).unwrap_or_default();
                            let mut same = obs.len() == refs.len();
                            for o in &obs {
                                let qo = KD::qo(o.raw);
                                match tl::quiet(|| refs.get::<KD::Q>(KD::q(&qo)).map(|k| KD::kid(k))) {
                                    Ok(Some(rk)) => {
                                        if KD::IDENT && rids.iter().position(|x| *x == rk) != ids.iter().position(|x| *x == o.kid) {
                                            same = false;
                                        }
                                    }
                                    _ => same = false,
                                }
                            }
                            cx.chk(p16, same, "bulk-vs-inserts", || format!("{} of {keys:?} differs from inserting the items one by one", names[sub]));
                        }
                        let _ = tl::quiet(move || drop(refs));
                    }
                }
                self.slots[1] = Some(slot);
            }
            Err(p) if p != Pk::Injected => {
                cx.bump(S::lib_panics);
                if !liar {
                    let owner = if lying { PS::NONE } else if overflow_at.is_some() || repeat_after_full { p16.and(Prop::C03) } else { p16 };
                    cx.chk(owner, overflow_at.is_some(), "spurious-overflow", || format!("{} panicked although only {} distinct elements were supplied to a set of {N}", names[sub], want.len()));
                }
            }
            Err(p) => fault |= unexpected(cx, liar, p16, &p),
        }
        self.note_fault(fault, true);
        self.cur_target = 1;
        self.after(p16, p16.and(Prop::C12));
    }

    fn op_overflow_sweep(&mut self, w: usize, a: u8, b: u8) {
        let Some(slot) = self.slots[w].as_ref() else { return };
        let had_removal = slot.swapped;
        let lim = KD::MAX_UNIV.min(250);
        let mut guard = 0;
        while self.slots[w].as_ref().unwrap().model.len() < N && guard < N + 2 {
            let model = &self.slots[w].as_ref().unwrap().model;
            let Some(k) = (0..lim as u16).map(|i| ((i + (a % self.univ) as u16) % lim as u16) as u8).find(|r| !model.contains_key(r)) else { break };
            self.op_insert_k(w, O_INSERT, k);
            guard += 1;
            if self.cx.failed() {
                return;
            }
        }
        let model = &self.slots[w].as_ref().unwrap().model;
        if model.len() != N {
            return;
        }
        self.cx.bump(S::overflow_probes);
        if had_removal || N == 0 {
            self.cx.bump(S::overflow_probes_after_removal);
        }
        let absent = (0..lim as u16).map(|i| ((i + b as u16) % lim as u16) as u8).find(|r| !model.contains_key(r));
        let present = model.keys().nth(b as usize % N.max(1)).copied();
        if let Some(k) = absent {
            for ep in [O_INSERT, O_REPLACE] {
                self.cx.cur_op = "overflow_sweep";
                self.op_insert_k(w, ep, k);
                self.cx.bump(S::overflow_entry_points);
                if self.cx.failed() {
                    return;
                }
            }
            // extend with one absent element
            let liar = self.liar;
            let mut fault = false;
            {
                self.op_overflow = true;
                let slot = self.slots[w].as_mut().unwrap();
                let cx = &mut *self.cx;
                let item = KD::key(k);
                let m = &mut slot.c.m;
                let r = Self::lib(cx, || m.extend(std::iter::once(item)));
                cx.log(|| format!("overflow probe extend[{w}]([{k}]) on a full set -> {r:?}"));
                cx.bump(S::overflow_entry_points);
                match r {
                    Err(Pk::Injected) => fault = true,
                    Err(_) => cx.bump(S::lib_panics),
                    other => {
                        if !liar {
                            cx.chk(P03, false, "overflow-not-rejected", || format!("extend of a new element into a full set of {N}: expected a panic, got {other:?}"));
                        }
                    }
                }
            }
            self.note_fault(fault, true);
            self.after(P03, P03);
        }
        if let Some(k) = present {
            for ep in [O_INSERT, O_REPLACE] {
                self.op_insert_k(w, ep, k);
                if self.cx.failed() {
                    return;
                }
            }
        }
    }

    fn op_fmt(&mut self, w: usize, a: u8, b: u8) {
        if self.liar {
            return;
        }
        let mut fault = false;
        {
            let Some(slot) = self.slots[w].as_mut() else { return };
            let cx = &mut *self.cx;
            let sub = scale(a, 3);
            let obs = Self::observe(&slot.c).unwrap_or_default();
            let out = match sub {
                0 => fmt_debug::<KD>(cx, &slot.c.m, false),
                1 => fmt_debug::<KD>(cx, &slot.c.m, true),
                _ => fmt_display::<KD>(cx, &slot.c.m),
            };
            cx.bump(S::fmt_calls);
            // the same container under width / fill / sign / precision flags: allocation oracle only
            mmv_base::fmtutil::fmt_spec_noalloc::<KD>(cx, Some(&slot.c.m), Some(&slot.c.m), b);
            match out {
                Ok(out) => {
                    let want = match sub {
                        0 => {
                            let parts: Vec<String> = obs.iter().map(|o| KD::kdbg(o.raw)).collect();
                            let by_std = format!("{:?}", RefSet(&parts));
                            let by_hand = format!("{{{}}}", parts.join(", "));
                            if by_std != by_hand {
                                format!("<reference renderers disagree: {by_std} vs {by_hand}>")
                            } else {
                                by_std
                            }
                        }
                        1 => {
                            let parts: Vec<String> = obs.iter().map(|o| format!("{:#?}", KD::key(o.raw))).collect();
                            format!("{:#?}", RefSet(&parts))
                        }
                        _ => format!("{{{}}}", obs.iter().map(|o| KD::kdisp(o.raw)).collect::<Vec<_>>().join(", ")),
                    };
                    cx.log(|| format!("fmt[{w}] form {sub}: {out:?}"));
                    cx.chk(P19, out == want, "container-format", || format!("form {sub}: rendered {out:?}, expected {want:?}"));
                    // Debug under other formatter options: the standard builder hands them to every entry
                    let spec = b as usize % mmv_base::fmtutil::NFLAGS;
                    let real: Vec<KD::K> = tl::outside(|| obs.iter().map(|o| KD::key(o.raw)).collect());
                    let want2 = mmv_base::fmtutil::ref_debug_flags(&mmv_base::fmtutil::RealSet(&real), spec);
                    if let Ok(out2) = mmv_base::fmtutil::fmt_debug_flags::<KD>(cx, &slot.c.m, spec) {
                        cx.chk(P19, out2 == want2, "container-format-flags", || format!("Debug with {}: rendered {out2:?}, the standard set rendering of the same entries is {want2:?}", mmv_base::fmtutil::FLAG_NAMES[spec]));
                    }
                    // Display under width / fill / sign / precision options: the one layout, every
                    // element rendered the same way (with the options or plainly)
                    let dspec = (b as usize / mmv_base::fmtutil::NFLAGS) % mmv_base::fmtutil::NDSPEC;
                    let ks: Vec<(String, String)> = real.iter().map(|k| (mmv_base::fmtutil::ref_display_spec(k, dspec), tl::outside(|| format!("{k}")))).collect();
                    if let Ok(out3) = mmv_base::fmtutil::fmt_display_spec::<KD>(cx, &slot.c.m, dspec) {
                        cx.chk(P19, mmv_base::fmtutil::display_spec_accepts(&out3, &ks, None), "display-options", || format!("Display with {}: rendered {out3:?}; elements rendered with the options / plainly: {:?} / {:?}", mmv_base::fmtutil::DSPEC_NAMES[dspec], ks.iter().map(|k| k.0.clone()).collect::<Vec<_>>(), ks.iter().map(|k| k.1.clone()).collect::<Vec<_>>()));
                    }
                    tl::outside(|| drop(real));
                }
                Err(p) => fault = unexpected(cx, false, P19, &p),
            }
            self.groups |= 8;
        }
        self.note_fault(fault, false);
        self.after(P19, P19);
    }

    /// `a == b`, `b == a`, and `&a - &b` (needs Clone; the result replaces nothing, it is
    /// checked and dropped).
    fn op_eqsub(&mut self, a: u8) {
        let liar = self.liar;
        let mut fault = false;
        {
            let cx = &mut *self.cx;
            let x = self.slots[0].as_ref().unwrap();
            let y = self.slots[1].as_ref().unwrap_or(x);
            let sub = scale(a, 4);
            if sub < 3 {
                let want = x.model.len() == y.model.len() && x.model.keys().all(|k| y.model.contains_key(k));
                let r = match sub {
                    0 => Self::lib(cx, || x.c.m == y.c.m),
                    1 => Self::lib(cx, || y.c.m == x.c.m),
                    _ => Self::lib(cx, || !(x.c.m != y.c.m)),
                };
                cx.bump(S::eq_calls);
                cx.log(|| format!("eq form {sub} -> {r:?} (model {want})"));
                match r {
                    Ok(got) => {
                        if !liar {
                            cx.chk(P14.and(Prop::C15), got == want, "equality", || format!("== gives {got} but the contents are {}", if want { "equal" } else { "different" }));
                        }
                    }
                    Err(p) => fault = unexpected(cx, liar, P14, &p),
                }
            } else {
                let r = Self::lib(cx, || &x.c.m - &y.c.m);
                match r {
                    Ok(d) => {
                        let cd = Caged::new(d);
                        let obs = tl::quiet(|| cd.m.iter().map(|k| KD::kraw(k)).collect::<Vec<u8>>()).unwrap_or_default();
                        let mut got = obs.clone();
                        got.sort_unstable();
                        let want: Vec<u8> = x.model.keys().filter(|k| !y.model.contains_key(k)).copied().collect();
                        cx.log(|| format!("sub -> {obs:?} (model {want:?})"));
                        if !liar {
                            cx.chk(PS::of(Prop::C08), got == want, "sub", || format!("&a - &b gives {obs:?}, expected {want:?}"));
                        }
                        let _ = tl::lib(move || drop(cd));
                    }
                    Err(p) => fault = unexpected(cx, liar, PS::of(Prop::C08), &p),
                }
            }
            self.groups |= 8;
        }
        self.note_fault(fault, false);
        self.cur_target = 2;
        self.after(P14, P14);
    }

    /// Large capacities: start from a generated fill level (see maphist::prefill).
    pub fn prefill(&mut self, sel: u8, mode: u8) {
        let u = self.univ as usize;
        let target = match sel % 4 {
            0 => N,
            1 => N - 1,
            2 => N.saturating_sub(2 + (mode as usize % 6)),
            _ => scale(mode, N + 1),
        }
        .min(u);
        let gcd = |mut a: usize, mut b: usize| {
            while b != 0 {
                let t = a % b;
                a = b;
                b = t;
            }
            a
        };
        let mut stride = 1 + (mode as usize % 11);
        while gcd(stride, u) != 1 {
            stride += 1;
        }
        let off = (mode as usize >> 2) % u;
        self.cx.cur_op = "insert";
        self.cur_target = 0;
        {
            let slot = self.slots[0].as_mut().unwrap();
            for i in 0..target {
                let k = ((i * stride + off) % u) as u8;
                let key = KD::key(k);
                let kid = KD::kid(&key);
                let m = &mut slot.c.m;
                let r = tl::lib(move || m.insert(key));
                if r == Ok(true) {
                    slot.model.insert(k, kid);
                } else if r == Err(Pk::Injected) {
                    self.faulted = true;
                    self.ever_faulted = true;
                    break;
                }
            }
            if slot.model.len() == N {
                self.cx.bump(S::reached_full);
            }
            self.cx.add(S::prefilled, slot.model.len() as u64);
        }
        self.after(P07, P12);
    }

    pub fn finish(mut self) {
        self.cx.cur_op = "final-drop";
        for w in (0..2).rev() {
            if let Some(s) = self.slots[w].take() {
                if self.poisoned {
                    std::mem::forget(s);
                    continue;
                }
                let c = s.c;
                if let Err(p) = tl::lib(move || drop(c)) {
                    if p == Pk::Injected {
                        self.ever_faulted = true;
                        let n = tl::ledger_excuse_unstored(&[]);
                        self.cx.add(S::fault_leaks_excused, n as u64);
                    } else if !self.liar {
                        let n = p.name();
                        self.cx.chk(P_WELL.union(P_LEDGER), false, "drop-panic", || format!("dropping the set panicked: {n}"));
                    }
                }
            }
        }
        if KD::TRACKED {
            let mut elig = PS::of(Prop::C02).and(Prop::C05);
            if self.ever_faulted {
                elig = elig.and(Prop::C04);
            }
            if self.ever_overflow {
                elig = elig.and(Prop::C03);
            }
            if self.ever_cloned {
                elig = elig.and(Prop::C15);
            }
            if self.liar && tl::liar_lies() > 0 {
                elig = elig.and(Prop::C17);
            }
            if let Some(v) = tl::ledger_first_violation() {
                self.cx.chk(P_LEDGER.inter(elig), false, "ledger", || v);
            }
            let left = tl::ledger_live_strict();
            self.cx.chk(P_LEAK.inter(elig), left.is_empty(), "leak-at-end", || format!("{} object(s) never destroyed, e.g. #{}", left.len(), left[0]));
        }
        if KD::COUNTS_LIVE && !self.poisoned {
            let mut elig = PS::of(Prop::C02).and(Prop::C05);
            if self.ever_faulted {
                elig = elig.and(Prop::C04);
            }
            if self.ever_overflow {
                elig = elig.and(Prop::C03);
            }
            if self.ever_cloned {
                elig = elig.and(Prop::C15);
            }
            let (lk, lv) = KD::live();
            self.cx.chk(P_LEDGER.inter(elig), lk >= 0 && lv >= 0, "count-double-drop", || format!("after everything was dropped the live counts are {lk} keys / {lv} values: something was destroyed twice"));
            if !self.ever_faulted && !self.may_leak {
                self.cx.chk(P_LEAK.inter(elig), lk <= 0 && lv <= 0, "count-leak-at-end", || format!("{lk} key(s) / {lv} value(s) never destroyed"));
            }
        }
        if self.ever_faulted {
            self.cx.bump(S::fault_fired);
        }
        self.cx.add(S::dup_key_paths, self.dup_paths.count_ones() as u64);
        self.cx.add(S::alloc_groups, self.groups.count_ones() as u64);
    }
}

/// Payload-specific capability: `Extend<&T>` exists only for `T: Copy`.
pub trait Copy2: Sized + PartialEq {
    const IS_COPY: bool;
    fn extend_by_ref<'a, const N: usize, I: Iterator<Item = &'a Self>>(s: &mut Set<Self, N>, it: I)
    where
        Self: 'a;
}
impl Copy2 for u8 {
    const IS_COPY: bool = true;
    fn extend_by_ref<'a, const N: usize, I: Iterator<Item = &'a u8>>(s: &mut Set<u8, N>, it: I) {
        s.extend(it)
    }
}
impl Copy2 for mmv_base::tl::TK {
    const IS_COPY: bool = false;
    fn extend_by_ref<'a, const N: usize, I: Iterator<Item = &'a Self>>(_: &mut Set<Self, N>, _: I) {}
}
impl Copy2 for mmv_base::kinds::Unit {
    const IS_COPY: bool = true;
    fn extend_by_ref<'a, const N: usize, I: Iterator<Item = &'a Self>>(s: &mut Set<Self, N>, it: I) {
        s.extend(it)
    }
}
impl Copy2 for mmv_base::kinds::GK {
    const IS_COPY: bool = false;
    fn extend_by_ref<'a, const N: usize, I: Iterator<Item = &'a Self>>(_: &mut Set<Self, N>, _: I) {}
}
impl Copy2 for mmv_base::kinds::NK {
    const IS_COPY: bool = false;
    fn extend_by_ref<'a, const N: usize, I: Iterator<Item = &'a Self>>(_: &mut Set<Self, N>, _: I) {}
}
impl Copy2 for mmv_base::kinds::PK {
    const IS_COPY: bool = false;
    fn extend_by_ref<'a, const N: usize, I: Iterator<Item = &'a Self>>(_: &mut Set<Self, N>, _: I) {}
}
impl Copy2 for mmv_base::kinds::FK {
    const IS_COPY: bool = false;
    fn extend_by_ref<'a, const N: usize, I: Iterator<Item = &'a Self>>(_: &mut Set<Self, N>, _: I) {}
}
impl Copy2 for mmv_base::kinds::DK {
    const IS_COPY: bool = false;
    fn extend_by_ref<'a, const N: usize, I: Iterator<Item = &'a Self>>(_: &mut Set<Self, N>, _: I) {}
}
impl Copy2 for String {
    const IS_COPY: bool = false;
    fn extend_by_ref<'a, const N: usize, I: Iterator<Item = &'a Self>>(_: &mut Set<Self, N>, _: I) {}
}

pub fn run<KD: Kind, const N: usize>(case: &Case, cx: &mut Ctx)
where
    KD::K: Copy2,
{
    tl::ledger_reset();
    KD::live_reset();
    let _ = tl::take_may_leak();
    cx.engine = "sethist";
    if case.prop == Prop::C17 {
        let bits: Vec<u8> = case.ops.iter().flat_map(|o| [o[2], o[3]]).collect();
        tl::liar_set(1 + case.mode % (tl::LIAR_MODES - 1), 2 + (case.mode >> 4), bits);
    } else {
        tl::liar_off();
    }
    if case.fuse >= 0 {
        tl::fuse_arm2(case.fuse as i64, if case.prop == Prop::C04 && case.mode & 3 == 3 { 1 + (case.mode >> 2) % 12 } else { 0 });
    } else {
        tl::fuse_arm(-1);
    }
    let mut univ = case.univ.max(1).min(if N > 17 { 96 } else { 24 });
    if univ > KD::MAX_UNIV {
        univ = KD::MAX_UNIV;
    }
    let mut e = SetEng::<KD, N> {
        cx,
        univ,
        slots: [Some(Slot::new()), None],
        liar: case.prop == Prop::C17 && KD::TRACKED,
        faulted: false,
        ever_faulted: false,
        lib_panicked: false,
        cur_target: 0,
        poisoned: false,
        quiet0: None,
        abandon: false,
            may_leak: false,
        op_overflow: false,
        ever_overflow: false,
        ever_cloned: false,
        cloned: false,
        mutated_after_clone: false,
        groups: 0,
        dup_paths: 0,
    };
    if N > 17 {
        e.prefill(case.cap2, case.mode);
    }
    for (i, op) in case.ops.iter().enumerate() {
        e.cx.step = i;
        if let Err(payload) = std::panic::catch_unwind(std::panic::AssertUnwindSafe(|| e.step(*op))) {
            // containers may be half-observed: never touch or drop them again
            e.poisoned = true;
            let liar = e.liar;
            mmv_base::probe::escaped_panic(e.cx, liar, true, payload);
            break;
        }
        if e.cx.failed() {
            break;
        }
        if e.abandon {
            e.cx.discard = true;
            e.cx.bump(S::discarded_setups);
            break;
        }
    }
    e.cx.step = case.ops.len();
    e.finish();
    tl::fuse_disarm();
    tl::liar_off();
}

pub fn run_dyn(case: &Case, cx: &mut Ctx) {
    use mmv_base::kinds::{FatTag, NoDrop, PathK, Plain, Str, Tagged, Tracked, ZstDrop, ZstKey};
    // sets are instantiated for tracked / plain / string / zero-sized / no-drop-glue elements
    let kind = match case.kind % mmv_base::case::NKINDS {
        0 => 0,
        2 => 2,
        4 | 7 => 4,
        6 => 6,
        8 => 8,
        9 => 9,
        10 => 10,
        11 => 11,
        _ => 1,
    };
    let n = mmv_base::capacity_of(&Case { kind, ..case.clone() });
    match kind {
        0 => mmv_base::by_cap!(run, Tracked, n, case, cx, [0, 1, 2, 3, 4, 6, 9, 17, 32, 33, 64, 70]),
        1 => mmv_base::by_cap!(run, Plain, n, case, cx, [0, 1, 2, 3, 4, 6, 9, 17, 32, 33, 64, 70]),
        2 => mmv_base::by_cap!(run, Str, n, case, cx, [0, 1, 2, 3, 4, 6]),
        4 => mmv_base::by_cap!(run, ZstKey, n, case, cx, [0, 1]),
        6 => mmv_base::by_cap!(run, NoDrop, n, case, cx, [0, 1, 2, 3, 4, 6]),
        8 => mmv_base::by_cap!(run, Tagged, n, case, cx, [0, 1, 2, 3, 4, 6, 9]),
        10 => mmv_base::by_cap!(run, ZstDrop, n, case, cx, [0, 1, 2]),
        11 => mmv_base::by_cap!(run, FatTag, n, case, cx, [0, 1, 2, 3, 4, 6]),
        _ => mmv_base::by_cap!(run, PathK, n, case, cx, [0, 1, 2, 3, 4, 6]),
    }
}
