//! Per-case context: armed property, verdict, class counters, trace.

use crate::case::{Prop, PS};

macro_rules! stats {
    ($($name:ident),* $(,)?) => {
        #[allow(non_camel_case_types)]
        #[derive(Clone, Copy, PartialEq, Eq, Debug)]
        #[repr(usize)]
        pub enum S { $($name),*, COUNT }
        pub const SNAMES: [&str; S::COUNT as usize] = [$(stringify!($name)),*];
    };
}

stats! {
    ops,
    mutations,
    inserts_new,
    inserts_replace,
    replace_on_full,
    rejected_inserts,
    checked_none,
    removals,
    swap_removals,
    insert_after_swap,
    reached_full,
    prefilled,
    steps_at_full,
    retains,
    retain_removed,
    clears,
    lookups,
    lookups_borrowed,
    lookups_hit,
    index_panics,
    lib_panics,
    mutation_after_lib_panic,
    drains,
    partial_drains,
    drain_refilled_full,
    consumes,
    partial_consumes,
    forgets,
    walks,
    walks_cut_inside_after_swap,
    adaptor_probes,
    iter_writes,
    entry_ops,
    entry_occupied,
    entry_vacant,
    entry_occ_remove_nonlast,
    entry_vacant_fill_last,
    entry_closure_runs,
    entry_closure_panics,
    clones,
    clones_ge2,
    clones_full,
    clones_empty,
    clone_froms,
    clone_from_shrinks,
    mutate_after_clone,
    observe_other_after_mutation,
    dup_key_supplied,
    dup_key_paths,
    dup_key_on_full,
    unchecked_inserts,
    unchecked_replace_nonlast,
    unchecked_fill_last,
    unchecked_disjoint,
    disjoint_calls,
    disjoint_reordered,
    disjoint_overlap_panics,
    disjoint_tuples,
    disjoint_big,
    relocations,
    twin_queries,
    order_checks_across_quiet_mut_calls,
    nan_unchecked_inserts,
    nan_bulk_ops,
    shared_start_queries,
    overflow_probes,
    overflow_probes_after_removal,
    overflow_entry_points,
    fmt_calls,
    fmt_iter_partial,
    eq_calls,
    eq_near_miss,
    eq_equal_diff_order,
    eq_equal_big,
    alg_pairs,
    alg_proper_overlap,
    alg_prefix_checks,
    bulk_calls,
    bulk_longer_than_n,
    bulk_repeat_after_full,
    bulk_overflow,
    bulk_nonfused_sources,
    bulk_lying_hints,
    bulk_lib_sources,
    liar_lies,
    liar_mutation_after_lie,
    fault_fired,
    fault_in_mutating_op,
    fault_leaks_excused,
    addr_checks,
    alloc_checks,
    alloc_groups,
    resyncs,
    discarded_setups,
    known_findings,
}

pub const NS: usize = S::COUNT as usize;

pub struct Ctx {
    pub armed: Prop,
    /// first violation of the armed property
    pub viol: Option<String>,
    /// signature of that violation: "<engine>/<op>/<kind>"
    pub sig: Option<String>,
    /// assertions that failed but are owned by other properties only
    pub foreign: u64,
    /// armed assertions evaluated
    pub checks: u64,
    pub st: [u64; NS],
    pub trace: Option<Vec<String>>,
    pub step: usize,
    pub cur_op: &'static str,
    pub engine: &'static str,
    /// set-up of a pair/algebra case misbehaved for reasons outside the armed property
    pub discard: bool,
}

impl Ctx {
    pub fn new(armed: Prop, trace: bool) -> Ctx {
        Ctx {
            armed,
            viol: None,
            sig: None,
            foreign: 0,
            checks: 0,
            st: [0; NS],
            trace: if trace { Some(Vec::new()) } else { None },
            step: 0,
            cur_op: "",
            engine: "",
            discard: false,
        }
    }

    /// With `VERIF_MARK` set (crash triage, `tools/after_crash.sh`): name the operation that is
    /// about to run on stderr, so that a process killed inside a library call leaves behind which
    /// call it was.
    pub fn mark_op(&self) {
        static ON: std::sync::OnceLock<bool> = std::sync::OnceLock::new();
        if *ON.get_or_init(|| std::env::var_os("VERIF_MARK").is_some()) {
            eprintln!("op-in-flight: {} {}", self.step, self.cur_op);
        }
    }

    #[inline]
    pub fn bump(&mut self, s: S) {
        self.st[s as usize] += 1;
    }
    #[inline]
    pub fn add(&mut self, s: S, n: u64) {
        self.st[s as usize] += n;
    }
    #[inline]
    pub fn get(&self, s: S) -> u64 {
        self.st[s as usize]
    }

    /// Evaluate an assertion owned by `owners`. Returns `cond`.
    #[inline]
    pub fn chk(&mut self, owners: PS, cond: bool, kind: &'static str, msg: impl FnOnce() -> String) -> bool {
        if owners.has(self.armed) {
            self.checks += 1;
            if !cond && self.viol.is_none() {
                let m = msg();
                self.sig = Some(format!("{}/{}/{}", self.engine, self.cur_op, kind));
                self.viol = Some(format!("step {} op {}: [{}] {}", self.step, self.cur_op, kind, m));
                if let Some(t) = self.trace.as_mut() {
                    t.push(format!("!! VIOLATION {}: {}", self.armed.name(), m));
                }
            }
        } else if !cond {
            self.foreign += 1;
            if let Some(t) = self.trace.as_mut() {
                t.push(format!("   (not owned by {}: [{}] {})", self.armed.name(), kind, msg()));
            }
        }
        cond
    }

    #[inline]
    pub fn failed(&self) -> bool {
        self.viol.is_some()
    }

    #[inline]
    pub fn log(&mut self, f: impl FnOnce() -> String) {
        if let Some(t) = self.trace.as_mut() {
            t.push(f());
        }
    }
}
