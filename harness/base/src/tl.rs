//! Thread-local instrumentation: object ledger, fuse (fault injection), liar script,
//! allocation counter, library-call window and panic classification.
//!
//! Everything here is per thread, so proptest workers are independent and a run is a pure
//! function of (tree, seed).

use std::alloc::{GlobalAlloc, Layout, System};
use std::any::Any;
use std::borrow::Borrow;
use std::cell::{Cell, RefCell};
use std::fmt;
use std::panic::{catch_unwind, AssertUnwindSafe};

// ---------------------------------------------------------------------------------------
// counting allocator
// ---------------------------------------------------------------------------------------

thread_local! {
    static ALLOCS: Cell<u64> = const { Cell::new(0) };
}

/// Global allocator that counts allocator *requests* (alloc, alloc_zeroed, realloc) per thread.
pub struct CountingAlloc;

unsafe impl GlobalAlloc for CountingAlloc {
    unsafe fn alloc(&self, l: Layout) -> *mut u8 {
        let _ = ALLOCS.try_with(|c| c.set(c.get() + 1));
        System.alloc(l)
    }
    unsafe fn dealloc(&self, p: *mut u8, l: Layout) {
        System.dealloc(p, l)
    }
    unsafe fn alloc_zeroed(&self, l: Layout) -> *mut u8 {
        let _ = ALLOCS.try_with(|c| c.set(c.get() + 1));
        System.alloc_zeroed(l)
    }
    unsafe fn realloc(&self, p: *mut u8, l: Layout, n: usize) -> *mut u8 {
        let _ = ALLOCS.try_with(|c| c.set(c.get() + 1));
        System.realloc(p, l, n)
    }
}

#[inline]
pub fn allocs() -> u64 {
    ALLOCS.with(|c| c.get())
}

// ---------------------------------------------------------------------------------------
// ledger
// ---------------------------------------------------------------------------------------

#[derive(Clone, Copy, PartialEq, Eq, Debug)]
pub enum St {
    Live,
    Dropped,
}

#[derive(Clone, Debug)]
pub struct Obj {
    pub st: St,
    pub is_key: bool,
    /// how often this object was the *source* of a Clone::clone call
    pub cloned: u32,
    /// serial of the object this one was cloned from (u32::MAX = constructed by the harness)
    pub from: u32,
    /// object may legitimately never be dropped (forgotten iterator / leak after injected panic)
    pub may_leak: bool,
}

pub struct Ledger {
    pub magic: u32,
    pub objs: Vec<Obj>,
    pub viol: Vec<String>,
    pub live: u32,
}

thread_local! {
    static LEDGER: RefCell<Ledger> = RefCell::new(Ledger { magic: 0x5A00_0001, objs: Vec::new(), viol: Vec::new(), live: 0 });
    static EPOCH: Cell<u32> = const { Cell::new(1) };
}

pub const NO_FROM: u32 = u32::MAX;

/// Start a fresh ledger epoch (one per executed case). Objects of earlier epochs that are
/// still lying around in dead stack memory carry another magic and count as garbage.
pub fn ledger_reset() {
    let e = EPOCH.with(|c| {
        let v = c.get().wrapping_add(1) & 0x00FF_FFFF;
        c.set(v);
        v
    });
    LEDGER.with(|l| {
        let mut l = l.borrow_mut();
        l.magic = 0x5A00_0000 | e;
        l.objs.clear();
        l.viol.clear();
        l.live = 0;
    });
}

fn ledger_new(is_key: bool, from: u32) -> (u32, u32) {
    LEDGER.with(|l| {
        let mut l = l.borrow_mut();
        let s = l.objs.len() as u32;
        l.objs.push(Obj { st: St::Live, is_key, cloned: 0, from, may_leak: false });
        l.live += 1;
        (s, l.magic)
    })
}

fn ledger_viol(l: &mut Ledger, msg: String) {
    if l.viol.len() < 16 {
        l.viol.push(msg);
    }
}

/// Record that the library (or anybody) used object (serial, magic) in `what`.
fn ledger_touch(serial: u32, magic: u32, what: &str) -> bool {
    LEDGER.with(|l| {
        let mut l = l.borrow_mut();
        if magic != l.magic || serial as usize >= l.objs.len() {
            ledger_viol(&mut l, format!("{what}: garbage object (serial {serial:#x}, magic {magic:#x}) treated as live"));
            return false;
        }
        if l.objs[serial as usize].st != St::Live {
            ledger_viol(&mut l, format!("{what}: object #{serial} used after it was destroyed"));
            return false;
        }
        true
    })
}

fn ledger_drop(serial: u32, magic: u32, what: &str) {
    LEDGER.with(|l| {
        let mut l = l.borrow_mut();
        if magic != l.magic || serial as usize >= l.objs.len() {
            ledger_viol(&mut l, format!("{what}: garbage object (serial {serial:#x}, magic {magic:#x}) destroyed as if live"));
            return;
        }
        if l.objs[serial as usize].st != St::Live {
            ledger_viol(&mut l, format!("{what}: object #{serial} destroyed twice"));
            return;
        }
        l.objs[serial as usize].st = St::Dropped;
        l.live -= 1;
    })
}

fn ledger_cloned(serial: u32) {
    LEDGER.with(|l| {
        let mut l = l.borrow_mut();
        if let Some(o) = l.objs.get_mut(serial as usize) {
            o.cloned += 1;
        }
    })
}

pub fn ledger_violations() -> Vec<String> {
    LEDGER.with(|l| l.borrow().viol.clone())
}
pub fn ledger_has_violation() -> bool {
    LEDGER.with(|l| !l.borrow().viol.is_empty())
}
pub fn ledger_first_violation() -> Option<String> {
    LEDGER.with(|l| l.borrow().viol.first().cloned())
}
pub fn ledger_violation_count() -> usize {
    LEDGER.with(|l| l.borrow().viol.len())
}
pub fn ledger_len() -> u32 {
    LEDGER.with(|l| l.borrow().objs.len() as u32)
}
pub fn ledger_live_count() -> u32 {
    LEDGER.with(|l| l.borrow().live)
}
pub fn ledger_obj(serial: u32) -> Option<Obj> {
    LEDGER.with(|l| l.borrow().objs.get(serial as usize).cloned())
}
pub fn ledger_is_live(serial: u32) -> bool {
    LEDGER.with(|l| l.borrow().objs.get(serial as usize).map(|o| o.st == St::Live).unwrap_or(false))
}
/// Is (serial, magic) a live object of the current epoch? Records nothing.
pub fn obj_live(serial: u32, magic: u32) -> bool {
    LEDGER.with(|l| {
        let l = l.borrow();
        magic == l.magic && l.objs.get(serial as usize).map(|o| o.st == St::Live).unwrap_or(false)
    })
}
pub fn ledger_mark_may_leak(serial: u32) {
    LEDGER.with(|l| {
        if let Some(o) = l.borrow_mut().objs.get_mut(serial as usize) {
            o.may_leak = true;
        }
    })
}
/// Serial numbers of all objects that are `Live` and not excused as possible leaks.
pub fn ledger_live_strict() -> Vec<u32> {
    LEDGER.with(|l| {
        l.borrow()
            .objs
            .iter()
            .enumerate()
            .filter(|(_, o)| o.st == St::Live && !o.may_leak)
            .map(|(i, _)| i as u32)
            .collect()
    })
}
/// Mark every currently live object that is not in `stored` as a tolerated leak.
pub fn ledger_excuse_unstored(stored: &[u32]) -> u32 {
    LEDGER.with(|l| {
        let mut l = l.borrow_mut();
        let mut n = 0;
        for (i, o) in l.objs.iter_mut().enumerate() {
            if o.st == St::Live && !o.may_leak && !stored.contains(&(i as u32)) {
                o.may_leak = true;
                n += 1;
            }
        }
        n
    })
}
pub fn ledger_clone_counts() -> Vec<u32> {
    LEDGER.with(|l| l.borrow().objs.iter().map(|o| o.cloned).collect())
}

// ---------------------------------------------------------------------------------------
// fuse, window, liar
// ---------------------------------------------------------------------------------------

#[derive(Clone, Copy, PartialEq, Eq, Debug, Hash)]
pub enum Cb {
    KeyEq,
    QEq,
    ValEq,
    KeyClone,
    ValClone,
    KeyDrop,
    ValDrop,
    ValDefault,
    Pred,
    Closure,
    SrcNext,
}

/// Marker payload of an injected panic.
pub struct Injected;

thread_local! {
    static WINDOW: Cell<bool> = const { Cell::new(false) };
    static FUSE: Cell<i64> = const { Cell::new(-1) };
    static REARM: Cell<i64> = const { Cell::new(0) };
    static TICKS: Cell<u64> = const { Cell::new(0) };
    static FIRED: Cell<Option<Cb>> = const { Cell::new(None) };
    static LAST_ALLOC: Cell<u64> = const { Cell::new(0) };
    static LIAR: RefCell<Liar> = RefCell::new(Liar::default());
}

#[derive(Default, Clone)]
pub struct Liar {
    pub mode: u8,
    pub bits: Vec<u8>,
    pub pos: usize,
    pub period: u8,
    pub n: u64,
    pub lies: u64,
}

pub const LIAR_MODES: u8 = 9;

pub fn liar_set(mode: u8, period: u8, bits: Vec<u8>) {
    LIAR.with(|l| {
        *l.borrow_mut() = Liar { mode, bits, pos: 0, period: period.max(2), n: 0, lies: 0 };
    })
}
pub fn liar_off() {
    LIAR.with(|l| l.borrow_mut().mode = 0)
}
pub fn liar_lies() -> u64 {
    LIAR.with(|l| l.borrow().lies)
}
fn liar_alt_borrow() -> bool {
    WINDOW.with(|w| w.get()) && LIAR.with(|l| l.borrow().mode == 7)
}

/// Answer of a key comparison whose honest answer is `truth` (operands a, b).
fn liar_eq(a: u8, b: u8) -> bool {
    let truth = a == b;
    if !WINDOW.with(|w| w.get()) {
        return truth;
    }
    LIAR.with(|l| {
        let mut l = l.borrow_mut();
        if l.mode == 0 {
            return truth;
        }
        l.n += 1;
        let ans = match l.mode {
            1 => true,
            2 => false,
            3 => {
                if l.n % (l.period as u64) == 0 {
                    !truth
                } else {
                    truth
                }
            }
            4 => a <= b,
            5 => truth && (a & 1 == 0),
            6 => {
                if l.bits.is_empty() {
                    truth
                } else {
                    let i = l.pos;
                    l.pos += 1;
                    let byte = l.bits[(i / 8) % l.bits.len()];
                    (byte >> (i % 8)) & 1 == 1
                }
            }
            // 7: honest ==, but Borrow hands out another field (see liar_alt_borrow)
            // 8: key 0 is a wildcard equal to everything: reflexive and symmetric but NOT
            //    transitive (1 == 0 and 0 == 2 although 1 != 2)
            8 => truth || a == 0 || b == 0,
            _ => truth,
        };
        if ans != truth {
            l.lies += 1;
        }
        ans
    })
}

pub fn fuse_arm(at: i64) {
    FUSE.with(|f| f.set(at));
    REARM.with(|f| f.set(0));
    TICKS.with(|t| t.set(0));
    FIRED.with(|f| f.set(None));
}
/// Arm the fuse at callback `at` and, once it has fired, once more `gap` callbacks later
/// (gap 0 = single fault): the survivor of one panic is hit by a second one.
pub fn fuse_arm2(at: i64, gap: u8) {
    fuse_arm(at);
    REARM.with(|f| f.set(gap as i64));
}
pub fn fuse_disarm() {
    FUSE.with(|f| f.set(-1));
}
pub fn fuse_ticks() -> u64 {
    TICKS.with(|t| t.get())
}
pub fn fuse_fired() -> Option<Cb> {
    FIRED.with(|f| f.get())
}

/// One user callback. Panics (once) if the fuse is set to this callback's index.
#[inline]
pub fn tick(kind: Cb) {
    if !WINDOW.with(|w| w.get()) {
        return;
    }
    let t = TICKS.with(|t| {
        let v = t.get();
        t.set(v + 1);
        v
    });
    if FUSE.with(|f| f.get()) == t as i64 && !std::thread::panicking() {
        let gap = REARM.with(|f| f.replace(0));
        FUSE.with(|f| f.set(if gap > 0 { t as i64 + gap } else { -1 }));
        FIRED.with(|f| f.set(Some(kind)));
        std::panic::panic_any(Injected);
    }
}

// ---------------------------------------------------------------------------------------
// library-call window
// ---------------------------------------------------------------------------------------

#[derive(Clone, Debug, PartialEq, Eq)]
pub enum Pk {
    Injected,
    /// "No more key-value slot available in the map" or the slice bounds check of the append path
    Overflow,
    NoEntry,
    Overlap,
    CapMismatch,
    Other(String),
}

impl Pk {
    pub fn name(&self) -> String {
        match self {
            Pk::Injected => "injected".into(),
            Pk::Overflow => "overflow".into(),
            Pk::NoEntry => "no-entry".into(),
            Pk::Overlap => "overlap".into(),
            Pk::CapMismatch => "cap-mismatch".into(),
            Pk::Other(s) => format!("other({s})"),
        }
    }
}

fn classify(p: Box<dyn Any + Send>) -> Pk {
    if p.is::<Injected>() {
        return Pk::Injected;
    }
    let msg: String = if let Some(s) = p.downcast_ref::<&'static str>() {
        (*s).to_string()
    } else if let Some(s) = p.downcast_ref::<String>() {
        s.clone()
    } else {
        "<non-string payload>".to_string()
    };
    if msg.contains("No more key-value slot") || msg.contains("index out of bounds") {
        Pk::Overflow
    } else if msg.contains("No entry found") {
        Pk::NoEntry
    } else if msg.contains("Overlapping keys") {
        Pk::Overlap
    } else if msg.contains("capacity must be equal") {
        Pk::CapMismatch
    } else {
        Pk::Other(msg)
    }
}

/// Run one library call inside the instrumentation window: user callbacks tick the fuse, the
/// liar script is active, allocator requests are counted, panics are caught and classified.
#[inline]
pub fn lib<R>(f: impl FnOnce() -> R) -> Result<R, Pk> {
    let a0 = allocs();
    let was = WINDOW.with(|w| w.replace(true));
    let r = catch_unwind(AssertUnwindSafe(f));
    WINDOW.with(|w| w.set(was));
    LAST_ALLOC.with(|c| c.set(allocs() - a0));
    r.map_err(classify)
}

/// Allocator requests made during the most recent `lib` call.
pub fn last_allocs() -> u64 {
    LAST_ALLOC.with(|c| c.get())
}

/// Run harness-side code (callbacks handed to the library) with the window suspended.
pub fn outside<R>(f: impl FnOnce() -> R) -> R {
    let was = WINDOW.with(|w| w.replace(false));
    let r = f();
    WINDOW.with(|w| w.set(was));
    r
}

/// Oracle-side library call: panics are caught, but the window stays closed (no fuse ticks,
/// no lies, no allocation accounting).
pub fn quiet<R>(f: impl FnOnce() -> R) -> Result<R, Pk> {
    let was = WINDOW.with(|w| w.replace(false));
    let r = catch_unwind(AssertUnwindSafe(f));
    WINDOW.with(|w| w.set(was));
    r.map_err(classify)
}

pub fn in_window() -> bool {
    WINDOW.with(|w| w.get())
}

// ---------------------------------------------------------------------------------------
// tracked element types
// ---------------------------------------------------------------------------------------

/// Borrowed form of a tracked key.
#[derive(Clone, Copy, Debug)]
#[repr(transparent)]
pub struct Raw(pub u8);

impl PartialEq for Raw {
    fn eq(&self, o: &Raw) -> bool {
        tick(Cb::QEq);
        liar_eq(self.0, o.0)
    }
}
impl Eq for Raw {}

/// Tracked key: equality looks at `raw` only, so equal keys are distinguishable by serial.
#[repr(C)]
pub struct TK {
    pub serial: u32,
    pub magic: u32,
    pub raw: Raw,
    pub alt: Raw,
}

impl TK {
    pub fn new(raw: u8) -> TK {
        let (serial, magic) = ledger_new(true, NO_FROM);
        TK { serial, magic, raw: Raw(raw), alt: Raw(raw.wrapping_add(1)) }
    }
}

impl PartialEq for TK {
    fn eq(&self, o: &TK) -> bool {
        ledger_touch(self.serial, self.magic, "key ==");
        ledger_touch(o.serial, o.magic, "key ==");
        tick(Cb::KeyEq);
        liar_eq(self.raw.0, o.raw.0)
    }
}
impl Eq for TK {}

impl Borrow<Raw> for TK {
    fn borrow(&self) -> &Raw {
        ledger_touch(self.serial, self.magic, "key borrow");
        if liar_alt_borrow() {
            &self.alt
        } else {
            &self.raw
        }
    }
}

impl Clone for TK {
    fn clone(&self) -> TK {
        ledger_touch(self.serial, self.magic, "key clone");
        tick(Cb::KeyClone);
        ledger_cloned(self.serial);
        let (serial, magic) = ledger_new(true, self.serial);
        TK { serial, magic, raw: self.raw, alt: self.alt }
    }
}

impl Drop for TK {
    fn drop(&mut self) {
        ledger_drop(self.serial, self.magic, "key drop");
        tick(Cb::KeyDrop);
    }
}

thread_local! {
    static DEBUG_IDS: Cell<bool> = const { Cell::new(false) };
}
/// while on, `Debug` of a tracked key also prints which object it is (`k3#17`): equal keys of
/// different containers render differently, as they do for any type whose `==` ignores part of
/// what its `Debug` prints
pub fn debug_ids(on: bool) {
    DEBUG_IDS.with(|c| c.set(on));
}
impl fmt::Debug for TK {
    fn fmt(&self, f: &mut fmt::Formatter<'_>) -> fmt::Result {
        ledger_touch(self.serial, self.magic, "key fmt");
        if DEBUG_IDS.with(|c| c.get()) {
            write!(f, "k{}#{}", self.raw.0, self.serial)
        } else {
            write!(f, "k{}", self.raw.0)
        }
    }
}
impl fmt::Display for TK {
    fn fmt(&self, f: &mut fmt::Formatter<'_>) -> fmt::Result {
        ledger_touch(self.serial, self.magic, "key fmt");
        write!(f, "k{}", self.raw.0)
    }
}

/// Tracked value.
#[repr(C)]
pub struct TV {
    pub serial: u32,
    pub magic: u32,
    pub val: u32,
}

impl TV {
    pub fn new(val: u32) -> TV {
        let (serial, magic) = ledger_new(false, NO_FROM);
        TV { serial, magic, val }
    }
}

impl PartialEq for TV {
    fn eq(&self, o: &TV) -> bool {
        ledger_touch(self.serial, self.magic, "value ==");
        ledger_touch(o.serial, o.magic, "value ==");
        tick(Cb::ValEq);
        self.val == o.val
    }
}
impl Eq for TV {}

impl Clone for TV {
    fn clone(&self) -> TV {
        ledger_touch(self.serial, self.magic, "value clone");
        tick(Cb::ValClone);
        ledger_cloned(self.serial);
        let (serial, magic) = ledger_new(false, self.serial);
        TV { serial, magic, val: self.val }
    }
}

impl Default for TV {
    fn default() -> TV {
        tick(Cb::ValDefault);
        TV::new(0)
    }
}

impl Drop for TV {
    fn drop(&mut self) {
        ledger_drop(self.serial, self.magic, "value drop");
        tick(Cb::ValDrop);
    }
}

impl fmt::Debug for TV {
    fn fmt(&self, f: &mut fmt::Formatter<'_>) -> fmt::Result {
        ledger_touch(self.serial, self.magic, "value fmt");
        write!(f, "v{}", self.val)
    }
}
impl fmt::Display for TV {
    fn fmt(&self, f: &mut fmt::Formatter<'_>) -> fmt::Result {
        ledger_touch(self.serial, self.magic, "value fmt");
        write!(f, "v{}", self.val)
    }
}

// ---------------------------------------------------------------------------------------
// canary cage
// ---------------------------------------------------------------------------------------

const CAN_A: u64 = 0xC0FF_EE11_D00D_F00D;
const CAN_B: u64 = 0x0BAD_CAFE_FEED_BEEF;

/// A container between two blocks of canary words. AddressSanitizer does not see an overflow
/// that stays inside the enclosing object; the canaries do.
#[repr(C)]
pub struct Caged<M> {
    pre: [u64; 8],
    pub m: M,
    post: [u64; 8],
}

impl<M> Caged<M> {
    pub fn new(m: M) -> Self {
        Caged { pre: [CAN_A; 8], m, post: [CAN_B; 8] }
    }
    pub fn intact(&self) -> bool {
        let pre = unsafe { std::ptr::read_volatile(&self.pre) };
        let post = unsafe { std::ptr::read_volatile(&self.post) };
        pre == [CAN_A; 8] && post == [CAN_B; 8]
    }
    /// Is [p, p+size) inside the bytes of the container value?
    pub fn contains(&self, p: usize, size: usize) -> bool {
        let base = &self.m as *const M as usize;
        let end = base + std::mem::size_of::<M>();
        p >= base && p + size <= end
    }
}

// ---------------------------------------------------------------------------------------
// alignment of handed-out references
// ---------------------------------------------------------------------------------------

thread_local! {
    static MISALIGNED: Cell<u32> = const { Cell::new(0) };
}

/// Address of a reference the library handed out; a reference that is not aligned for its type
/// is recorded (engines report it with the next standing check).
#[inline]
pub fn addr_of<T>(r: &T) -> usize {
    let p = r as *const T as usize;
    if p % std::mem::align_of::<T>() != 0 {
        MISALIGNED.with(|c| c.set(c.get() + 1));
    }
    p
}

/// Number of misaligned references seen since the last call.
pub fn take_misaligned() -> u32 {
    MISALIGNED.with(|c| c.replace(0))
}

thread_local! {
    static MAY_LEAK: Cell<bool> = const { Cell::new(false) };
}
/// an iterator / drain was forgotten: what it still held may have leaked (count-based ownership)
pub fn mark_may_leak() {
    MAY_LEAK.with(|c| c.set(true));
}
pub fn take_may_leak() -> bool {
    MAY_LEAK.with(|c| c.replace(false))
}
