//! Formatting into a fixed, non-allocating sink; helpers to compare renderings.

use crate::case::{Prop, PS};
use crate::ctx::{Ctx, S};
use crate::kinds::Kind;
use crate::tl::{self, Pk};
use std::fmt::{self, Write};

pub struct Sink {
    pub buf: [u8; 8192],
    pub n: usize,
    pub overflow: bool,
}

impl Sink {
    pub fn new() -> Sink {
        Sink { buf: [0; 8192], n: 0, overflow: false }
    }
    pub fn as_str(&self) -> &str {
        std::str::from_utf8(&self.buf[..self.n]).unwrap_or("<invalid utf8>")
    }
}

impl Write for Sink {
    fn write_str(&mut self, s: &str) -> fmt::Result {
        let b = s.as_bytes();
        if self.n + b.len() > self.buf.len() {
            self.overflow = true;
            return Ok(());
        }
        self.buf[self.n..self.n + b.len()].copy_from_slice(b);
        self.n += b.len();
        Ok(())
    }
}

fn render(cx: &mut Ctx, noalloc: bool, f: impl FnOnce(&mut Sink) -> fmt::Result) -> Result<String, Pk> {
    let mut sink = Sink::new();
    let before = (tl::ledger_live_count(), tl::ledger_len());
    let r = tl::lib(|| f(&mut sink));
    match r {
        Ok(res) => {
            // "formatting never changes the container": no tracked key or value is destroyed
            // (or cloned) by rendering it
            let after = (tl::ledger_live_count(), tl::ledger_len());
            cx.chk(PS::of(Prop::C19), before == after, "fmt-side-effect", || format!("formatting destroyed or created elements: {} live of {} objects before, {} of {} after", before.0, before.1, after.0, after.1));
            if noalloc {
                cx.bump(S::alloc_checks);
                let n = tl::last_allocs();
                cx.chk(PS::of(Prop::C06), n == 0, "alloc", || format!("{n} allocator request(s) while formatting into a non-allocating sink"));
            }
            cx.chk(PS::of(Prop::C19), res.is_ok(), "fmt-error", || "formatting returned an error for an infallible sink".into());
            Ok(sink.as_str().to_string())
        }
        Err(p) => Err(p),
    }
}

pub fn fmt_debug<KD: Kind>(cx: &mut Ctx, x: &dyn fmt::Debug, alt: bool) -> Result<String, Pk> {
    render(cx, KD::NOALLOC, |s| if alt { write!(s, "{x:#?}") } else { write!(s, "{x:?}") })
}

/// Formatting with width / fill / alignment / sign / precision flags: allocation oracle (C06).
/// (What `Display` must render under such options is checked by `display_spec_check`.)
pub fn fmt_spec_noalloc<KD: Kind>(cx: &mut Ctx, d: Option<&dyn fmt::Display>, g: Option<&dyn fmt::Debug>, spec: u8) {
    if !KD::NOALLOC {
        return;
    }
    if let Some(x) = d {
        let _ = render(cx, true, |s| match spec % 8 {
            0 => write!(s, "{x:>40}"),
            1 => write!(s, "{x:8}"),
            2 => write!(s, "{x:<3}"),
            3 => write!(s, "{x:*^25}"),
            4 => write!(s, "{x:08}"),
            5 => write!(s, "{x:+}"),
            6 => write!(s, "{x:.2}"),
            _ => write!(s, "{x:>w$}", w = 17),
        });
    }
    if let Some(x) = g {
        let _ = render(cx, true, |s| match spec % 8 {
            0 => write!(s, "{x:>40?}"),
            1 => write!(s, "{x:8?}"),
            2 => write!(s, "{x:<3?}"),
            3 => write!(s, "{x:#12?}"),
            4 => write!(s, "{x:08?}"),
            5 => write!(s, "{x:+?}"),
            6 => write!(s, "{x:x?}"),
            _ => write!(s, "{x:#X?}"),
        });
    }
}

pub fn fmt_display<KD: Kind>(cx: &mut Ctx, x: &dyn fmt::Display) -> Result<String, Pk> {
    let plain = render(cx, KD::NOALLOC, |s| write!(s, "{x}"));
    // Display has one layout: '{' entries joined by ", " '}'. The alternate flag means nothing to
    // the Display of any payload kind used here, so `{:#}` must render the same text.
    if let (Ok(p), Ok(a)) = (&plain, render(cx, KD::NOALLOC, |s| write!(s, "{x:#}"))) {
        cx.chk(PS::of(Prop::C19), *p == a, "display-alternate", || format!("Display under the alternate flag renders {a:?}, plain Display renders {p:?}"));
    }
    plain
}

/// Split at top-level ", " separators (ignores commas inside (), [], {} and string literals).
pub fn split_top(s: &str) -> Vec<String> {
    let mut out = Vec::new();
    let mut depth = 0i32;
    let mut in_str = false;
    let mut esc = false;
    let mut cur = String::new();
    let chars: Vec<char> = s.chars().collect();
    let mut i = 0;
    while i < chars.len() {
        let ch = chars[i];
        if in_str {
            cur.push(ch);
            if esc {
                esc = false;
            } else if ch == '\\' {
                esc = true;
            } else if ch == '"' {
                in_str = false;
            }
        } else {
            match ch {
                '"' => {
                    in_str = true;
                    cur.push(ch);
                }
                '(' | '[' | '{' => {
                    depth += 1;
                    cur.push(ch);
                }
                ')' | ']' | '}' => {
                    depth -= 1;
                    cur.push(ch);
                }
                ',' if depth == 0 => {
                    out.push(cur.trim().to_string());
                    cur = String::new();
                }
                _ => cur.push(ch),
            }
        }
        i += 1;
    }
    if !cur.trim().is_empty() {
        out.push(cur.trim().to_string());
    }
    out
}

/// Reference renderer: std's debug_map / debug_set / debug_list over an independently
/// observed sequence of already-rendered parts.
pub struct Verbatim<'a>(pub &'a str);
impl fmt::Debug for Verbatim<'_> {
    fn fmt(&self, f: &mut fmt::Formatter<'_>) -> fmt::Result {
        f.write_str(self.0)
    }
}

pub struct RefMap<'a>(pub &'a [(String, String)]);
impl fmt::Debug for RefMap<'_> {
    fn fmt(&self, f: &mut fmt::Formatter<'_>) -> fmt::Result {
        f.debug_map().entries(self.0.iter().map(|(k, v)| (Verbatim(k), Verbatim(v)))).finish()
    }
}

pub struct RefSet<'a>(pub &'a [String]);
impl fmt::Debug for RefSet<'_> {
    fn fmt(&self, f: &mut fmt::Formatter<'_>) -> fmt::Result {
        f.debug_set().entries(self.0.iter().map(|k| Verbatim(k))).finish()
    }
}

/// Debug formatting under formatter options other than plain / alternate. The standard
/// `debug_map` / `debug_set` builders hand the caller's options through to every key and value
/// (`{:x?}` prints hexadecimal entries, `{:5?}` pads each of them ...); "exactly the standard
/// rendering" therefore includes them. The reference is the standard builder itself over
/// freshly constructed payload objects in the observed iteration order.
pub const NFLAGS: usize = 7;
pub const FLAG_NAMES: [&str; NFLAGS] = ["{:x?}", "{:02X?}", "{:6?}", "{:+?}", "{:.1?}", "{:#x?}", "{:<5?}"];

fn write_flags(s: &mut Sink, x: &dyn fmt::Debug, spec: usize) -> fmt::Result {
    match spec % NFLAGS {
        0 => write!(s, "{x:x?}"),
        1 => write!(s, "{x:02X?}"),
        2 => write!(s, "{x:6?}"),
        3 => write!(s, "{x:+?}"),
        4 => write!(s, "{x:.1?}"),
        5 => write!(s, "{x:#x?}"),
        _ => write!(s, "{x:<5?}"),
    }
}

pub fn fmt_debug_flags<KD: Kind>(cx: &mut Ctx, x: &dyn fmt::Debug, spec: usize) -> Result<String, Pk> {
    render(cx, KD::NOALLOC, |s| write_flags(s, x, spec))
}

/// the reference rendering (harness side: window closed, no allocation accounting)
pub fn ref_debug_flags(x: &dyn fmt::Debug, spec: usize) -> String {
    let mut sink = Sink::new();
    let _ = tl::outside(|| write_flags(&mut sink, x, spec));
    sink.as_str().to_string()
}

pub struct RealMap<'a, K, V>(pub &'a [(K, V)]);
impl<K: fmt::Debug, V: fmt::Debug> fmt::Debug for RealMap<'_, K, V> {
    fn fmt(&self, f: &mut fmt::Formatter<'_>) -> fmt::Result {
        f.debug_map().entries(self.0.iter().map(|(k, v)| (k, v))).finish()
    }
}
pub struct RealSet<'a, K>(pub &'a [K]);
impl<K: fmt::Debug> fmt::Debug for RealSet<'_, K> {
    fn fmt(&self, f: &mut fmt::Formatter<'_>) -> fmt::Result {
        f.debug_set().entries(self.0.iter()).finish()
    }
}

/// `Display` under formatter options (width, fill, alignment, sign, precision). The statement
/// fixes one layout - '{' entries joined by ", " '}' - and says nothing about whether an entry
/// sees the caller's options, so both readings are accepted, but the same one for every key and
/// the same one for every value: the output must be the layout over entries rendered with the
/// options, or over entries rendered plainly (any of the combinations for keys and values).
/// Padding or truncating the whole text, or treating the first entry differently from the rest,
/// is not that layout.
pub const NDSPEC: usize = 7;
pub const DSPEC_NAMES: [&str; NDSPEC] = ["{:>6}", "{:<4}", "{:^7}", "{:+}", "{:.1}", "{:05}", "{:*<5.2}"];

fn write_dspec(s: &mut Sink, x: &dyn fmt::Display, spec: usize) -> fmt::Result {
    match spec % NDSPEC {
        0 => write!(s, "{x:>6}"),
        1 => write!(s, "{x:<4}"),
        2 => write!(s, "{x:^7}"),
        3 => write!(s, "{x:+}"),
        4 => write!(s, "{x:.1}"),
        5 => write!(s, "{x:05}"),
        _ => write!(s, "{x:*<5.2}"),
    }
}

pub fn fmt_display_spec<KD: Kind>(cx: &mut Ctx, x: &dyn fmt::Display, spec: usize) -> Result<String, Pk> {
    render(cx, KD::NOALLOC, |s| write_dspec(s, x, spec))
}

/// reference rendering of one payload object under the options (harness side)
pub fn ref_display_spec(x: &dyn fmt::Display, spec: usize) -> String {
    let mut sink = Sink::new();
    let _ = tl::outside(|| write_dspec(&mut sink, x, spec));
    sink.as_str().to_string()
}

/// `keys` / `vals`: per entry (rendered with the options, rendered plainly); `vals` is None for sets.
pub fn display_spec_accepts(out: &str, keys: &[(String, String)], vals: Option<&[(String, String)]>) -> bool {
    for ks in 0..2 {
        for vs in 0..2 {
            let parts: Vec<String> = keys
                .iter()
                .enumerate()
                .map(|(i, k)| {
                    let kk = if ks == 0 { &k.0 } else { &k.1 };
                    match vals {
                        Some(v) => format!("{kk}: {}", if vs == 0 { &v[i].0 } else { &v[i].1 }),
                        None => kk.clone(),
                    }
                })
                .collect();
            if out == format!("{{{}}}", parts.join(", ")) {
                return true;
            }
        }
    }
    false
}
