//! Iterator-adaptor probes: the provided `Iterator` methods a library may override
//! (`nth`, `last`, `fold`, `count`; `skip`/`step_by` are built on `nth`, `for_each` on `fold`)
//! must agree with what stepping the same iterator with `next` yields.
//!
//! A probe runs one such method on an iterator (a clone of the iterator under test, a fresh
//! iterator advanced to the same point, or - for consuming iterators - the iterator itself) and
//! records everything observable; the engines compare the record with the remaining sequence
//! they know from plain stepping (ordered) or from the model (as a multiset).

use crate::case::{Prop, PS};
use crate::ctx::{Ctx, S};
use crate::tl::{self, Pk};
use std::fmt::Debug;

pub const NPROBES: usize = 9;
pub const PROBE_NAMES: [&str; NPROBES] = ["nth", "last", "fold", "count", "skip", "find", "any", "all", "position"];

#[derive(Debug, Clone)]
pub struct ProbeOut<T> {
    pub which: usize,
    pub k: usize,
    /// result of nth / last
    pub got: Option<T>,
    /// size_hint right after nth returned
    pub hint_after: Option<(usize, Option<usize>)>,
    /// items produced afterwards by `next` (nth), by the fold closure (fold), by the Skip adaptor (skip)
    pub tail: Vec<T>,
    pub count: Option<usize>,
    /// items handed to the closure of any / all / position (by value), in call order
    pub seen: Vec<T>,
    /// `next` produced an item after it had returned None
    pub resumed: bool,
    pub panicked: Option<Pk>,
}

fn lib<R>(cx: &mut Ctx, noalloc: bool, f: impl FnOnce() -> R) -> Result<R, Pk> {
    let r = tl::lib(f);
    if noalloc && r.is_ok() {
        cx.bump(S::alloc_checks);
        let n = tl::last_allocs();
        cx.chk(PS::of(Prop::C06), n == 0, "alloc", || format!("{n} allocator request(s) during a non-panicking iterator call"));
    }
    r
}

/// Run probe `which` with argument `k` on `it`. `cap` bounds the number of items pulled.
pub fn probe<I: Iterator, T>(cx: &mut Ctx, noalloc: bool, mut it: I, which: usize, k: usize, cap: usize, mut ext: impl FnMut(I::Item) -> T) -> ProbeOut<T> {
    let mut out = ProbeOut { which, k, got: None, hint_after: None, tail: Vec::with_capacity(cap + 8), count: None, seen: Vec::new(), resumed: false, panicked: None };
    cx.bump(S::adaptor_probes);
    match which {
        0 => {
            match lib(cx, noalloc, || it.nth(k)) {
                Ok(x) => out.got = x.map(&mut ext),
                Err(p) => {
                    out.panicked = Some(p);
                    return out;
                }
            }
            out.hint_after = Some(size_hint_of(&it));
            let mut ended = false;
            for _ in 0..cap + 4 {
                match lib(cx, noalloc, || it.next()) {
                    Ok(Some(x)) => {
                        if ended {
                            out.resumed = true;
                        }
                        out.tail.push(ext(x));
                    }
                    Ok(None) => {
                        if ended {
                            break;
                        }
                        ended = true;
                    }
                    Err(p) => {
                        out.panicked = Some(p);
                        break;
                    }
                }
            }
            let _ = lib(cx, false, move || drop(it));
        }
        1 => match lib(cx, noalloc, move || it.last()) {
            Ok(x) => out.got = x.map(&mut ext),
            Err(p) => out.panicked = Some(p),
        },
        2 => {
            let tail = &mut out.tail;
            let lim = cap + 8;
            let r = lib(cx, noalloc, move || {
                it.fold(0usize, |n, x| {
                    if n < lim {
                        tl::outside(|| tail.push(ext(x)));
                    }
                    n + 1
                })
            });
            match r {
                Ok(n) => out.count = Some(n),
                Err(p) => out.panicked = Some(p),
            }
        }
        3 => match lib(cx, noalloc, move || it.count()) {
            Ok(n) => out.count = Some(n),
            Err(p) => out.panicked = Some(p),
        },
        5..=8 => {
            // the short-circuiting searches (find / any / all / position) with a closure that
            // answers by call index: it stops at the k-th item it is shown; the iterator must then
            // stand right behind that item
            out.seen = Vec::with_capacity(cap + 8);
            let seen = &mut out.seen;
            let lim = cap + 8;
            let mut idx = 0usize;
            let itr = &mut it;
            let r: Result<(Option<I::Item>, usize), Pk> = match which {
                5 => lib(cx, noalloc, || {
                    let x = itr.find(|_| {
                        let hit = idx == k;
                        idx += 1;
                        hit
                    });
                    (x, 0)
                }),
                6 => lib(cx, noalloc, || {
                    let b = itr.any(|x| {
                        let hit = idx == k;
                        idx += 1;
                        if idx <= lim {
                            tl::outside(|| seen.push(ext(x)));
                        }
                        hit
                    });
                    (None, b as usize)
                }),
                7 => lib(cx, noalloc, || {
                    let b = itr.all(|x| {
                        let hit = idx == k;
                        idx += 1;
                        if idx <= lim {
                            tl::outside(|| seen.push(ext(x)));
                        }
                        !hit
                    });
                    (None, b as usize)
                }),
                _ => lib(cx, noalloc, || {
                    let p = itr.position(|x| {
                        let hit = idx == k;
                        idx += 1;
                        if idx <= lim {
                            tl::outside(|| seen.push(ext(x)));
                        }
                        hit
                    });
                    (None, p.unwrap_or(usize::MAX))
                }),
            };
            match r {
                Ok((x, c)) => {
                    out.got = x.map(&mut ext);
                    out.count = Some(c);
                }
                Err(p) => {
                    out.panicked = Some(p);
                    return out;
                }
            }
            out.hint_after = Some(size_hint_of(&it));
            let mut ended = false;
            for _ in 0..cap + 4 {
                match lib(cx, noalloc, || it.next()) {
                    Ok(Some(x)) => {
                        if ended {
                            out.resumed = true;
                        }
                        out.tail.push(ext(x));
                    }
                    Ok(None) => {
                        if ended {
                            break;
                        }
                        ended = true;
                    }
                    Err(p) => {
                        out.panicked = Some(p);
                        break;
                    }
                }
            }
            let _ = lib(cx, false, move || drop(it));
        }
        _ => {
            let mut sk = it.skip(k);
            let mut ended = false;
            for _ in 0..cap + 4 {
                match lib(cx, noalloc, || sk.next()) {
                    Ok(Some(x)) => {
                        if ended {
                            out.resumed = true;
                        }
                        out.tail.push(ext(x));
                    }
                    Ok(None) => {
                        if ended {
                            break;
                        }
                        ended = true;
                    }
                    Err(p) => {
                        out.panicked = Some(p);
                        break;
                    }
                }
            }
            let _ = lib(cx, false, move || drop(sk));
        }
    }
    out
}

/// Compare a probe record with the known remaining sequence `rest` (in order).
/// `exact_hint`: the iterator is an ExactSizeIterator, so size_hint after nth must be exact;
/// otherwise it must bracket the number of items that followed.
pub fn check_ordered<T: PartialEq + Debug>(o: &ProbeOut<T>, rest: &[T], exact_hint: bool) -> Result<(), String> {
    let n = rest.len();
    let name = PROBE_NAMES[o.which];
    if let Some(p) = &o.panicked {
        return Err(format!("{name}({}) panicked: {}", o.k, p.name()));
    }
    if o.resumed {
        return Err(format!("after {name}({}) the iterator produced an item after it had returned None", o.k));
    }
    match o.which {
        0 => {
            if o.got.as_ref() != rest.get(o.k) {
                return Err(format!("nth({}) with {n} items to come returned {:?}, stepping gives {:?}", o.k, o.got, rest.get(o.k)));
            }
            let after = &rest[(o.k + 1).min(n)..];
            if o.tail.as_slice() != after {
                return Err(format!("after nth({}) the iterator continued with {:?}, stepping gives {:?}", o.k, o.tail, after));
            }
            if let Some((lo, hi)) = o.hint_after {
                let m = after.len();
                let ok = if exact_hint { lo == m && hi == Some(m) } else { lo <= m && hi.map(|h| h >= m).unwrap_or(true) };
                if !ok {
                    return Err(format!("size_hint after nth({}) is ({lo}, {hi:?}) with {m} items still to come", o.k));
                }
            }
        }
        1 => {
            if o.got.as_ref() != rest.last() {
                return Err(format!("last() with {n} items to come returned {:?}, stepping ends with {:?}", o.got, rest.last()));
            }
        }
        2 => {
            if o.count != Some(n) || o.tail.as_slice() != rest {
                return Err(format!("fold visited {:?} ({:?} items), stepping gives {:?}", o.tail, o.count, rest));
            }
        }
        3 => {
            if o.count != Some(n) {
                return Err(format!("count() returned {:?} with {n} items to come", o.count));
            }
        }
        5..=8 => {
            let shown = (o.k + 1).min(n);
            let after = &rest[shown..];
            if o.tail.as_slice() != after {
                return Err(format!("after {name}(stop at item {}) with {n} items to come the iterator continued with {:?}, stepping gives {:?}", o.k, o.tail, after));
            }
            if let Some((lo, hi)) = o.hint_after {
                let m = after.len();
                let ok = if exact_hint { lo == m && hi == Some(m) } else { lo <= m && hi.map(|h| h >= m).unwrap_or(true) };
                if !ok {
                    return Err(format!("size_hint after {name}(stop at item {}) is ({lo}, {hi:?}) with {m} items still to come", o.k));
                }
            }
            let hit = o.k < n;
            match o.which {
                5 => {
                    if o.got.as_ref() != rest.get(o.k) {
                        return Err(format!("find(stop at item {}) with {n} items to come returned {:?}, stepping gives {:?}", o.k, o.got, rest.get(o.k)));
                    }
                }
                6 | 7 => {
                    let want = if o.which == 6 { hit } else { !hit };
                    if o.count != Some(want as usize) || o.seen.as_slice() != &rest[..shown] {
                        return Err(format!("{name}(stop at item {}) with {n} items to come returned {:?} after showing {:?} to its closure; expected {want} after {:?}", o.k, o.count.map(|c| c == 1), o.seen, &rest[..shown]));
                    }
                }
                _ => {
                    let want = if hit { o.k } else { usize::MAX };
                    if o.count != Some(want) || o.seen.as_slice() != &rest[..shown] {
                        return Err(format!("position(stop at item {}) with {n} items to come returned {:?} after showing {} items to its closure", o.k, o.count.filter(|c| *c != usize::MAX), o.seen.len()));
                    }
                }
            }
        }
        _ => {
            let after = &rest[o.k.min(n)..];
            if o.tail.as_slice() != after {
                return Err(format!("skip({}) yielded {:?}, stepping gives {:?}", o.k, o.tail, after));
            }
        }
    }
    Ok(())
}

/// Compare a probe record with the remaining entries as a multiset (order unknown): everything
/// produced is a distinct member of `rest`, and the counts are exact.
pub fn check_multiset<T: PartialEq + Debug + Clone>(o: &ProbeOut<T>, rest: &[T], exact_hint: bool) -> Result<(), String> {
    let n = rest.len();
    let name = PROBE_NAMES[o.which];
    if let Some(p) = &o.panicked {
        return Err(format!("{name}({}) panicked: {}", o.k, p.name()));
    }
    if o.resumed {
        return Err(format!("after {name}({}) the iterator produced an item after it had returned None", o.k));
    }
    let mut pool: Vec<T> = rest.to_vec();
    let mut take = |x: &T| -> bool {
        match pool.iter().position(|y| y == x) {
            Some(p) => {
                pool.swap_remove(p);
                true
            }
            None => false,
        }
    };
    if let Some(g) = &o.got {
        if !take(g) {
            return Err(format!("{name}({}) returned {g:?}, which is not among the entries still to come {rest:?}", o.k));
        }
    }
    for x in &o.seen {
        if !take(x) {
            return Err(format!("{name}({}): showed {x:?} to its closure, which is not among the entries still to come (or was produced twice); to come: {rest:?}", o.k));
        }
    }
    for x in &o.tail {
        if !take(x) {
            return Err(format!("{name}({}): produced {x:?} which is not among the entries still to come (or was produced twice); to come: {rest:?}", o.k));
        }
    }
    match o.which {
        0 => {
            if o.got.is_some() != (o.k < n) {
                return Err(format!("nth({}) with {n} items to come returned {:?}", o.k, o.got));
            }
            let m = n.saturating_sub(o.k + 1);
            if o.tail.len() != m {
                return Err(format!("after nth({}) with {n} items to come, {} more items followed, expected {m}", o.k, o.tail.len()));
            }
            if let Some((lo, hi)) = o.hint_after {
                let ok = if exact_hint { lo == m && hi == Some(m) } else { lo <= m && hi.map(|h| h >= m).unwrap_or(true) };
                if !ok {
                    return Err(format!("size_hint after nth({}) is ({lo}, {hi:?}) with {m} items still to come", o.k));
                }
            }
        }
        1 => {
            if o.got.is_some() != (n > 0) {
                return Err(format!("last() with {n} items to come returned {:?}", o.got));
            }
        }
        2 => {
            if o.count != Some(n) || o.tail.len() != n {
                return Err(format!("fold visited {} items (returned {:?}) with {n} to come", o.tail.len(), o.count));
            }
        }
        3 => {
            if o.count != Some(n) {
                return Err(format!("count() returned {:?} with {n} items to come", o.count));
            }
        }
        5..=8 => {
            let shown = (o.k + 1).min(n);
            let m = n - shown;
            if o.tail.len() != m {
                return Err(format!("after {name}(stop at item {}) with {n} items to come, {} more items followed, expected {m}", o.k, o.tail.len()));
            }
            if let Some((lo, hi)) = o.hint_after {
                let ok = if exact_hint { lo == m && hi == Some(m) } else { lo <= m && hi.map(|h| h >= m).unwrap_or(true) };
                if !ok {
                    return Err(format!("size_hint after {name}(stop at item {}) is ({lo}, {hi:?}) with {m} items still to come", o.k));
                }
            }
            let hit = o.k < n;
            let ok = match o.which {
                5 => o.got.is_some() == hit,
                6 => o.count == Some(hit as usize) && o.seen.len() == shown,
                7 => o.count == Some(!hit as usize) && o.seen.len() == shown,
                _ => o.count == Some(if hit { o.k } else { usize::MAX }) && o.seen.len() == shown,
            };
            if !ok {
                return Err(format!("{name}(stop at item {}) with {n} items to come: returned {:?} / {:?} after showing {} items to its closure", o.k, o.got, o.count, o.seen.len()));
            }
        }
        _ => {
            let m = n.saturating_sub(o.k);
            if o.tail.len() != m {
                return Err(format!("skip({}) with {n} items to come yielded {} items, expected {m}", o.k, o.tail.len()));
            }
        }
    }
    Ok(())
}

/// `(len(), size_hint())` of an iterator under test; a panic inside either call is reported
/// as an impossible value, which every exact-length / bracketing comparison rejects.
pub fn hint_of<I: ExactSizeIterator>(it: &I) -> (usize, (usize, Option<usize>)) {
    tl::quiet(|| (it.len(), it.size_hint())).unwrap_or((usize::MAX, (usize::MAX, Some(0))))
}

pub fn size_hint_of<I: Iterator>(it: &I) -> (usize, Option<usize>) {
    tl::quiet(|| it.size_hint()).unwrap_or((usize::MAX, Some(0)))
}

/// `next()` after the end: true if it (still) reports None; a panic counts as "not None".
pub fn ended_none<I: Iterator>(it: &mut I) -> bool {
    tl::quiet(|| it.next().is_none()).unwrap_or(false)
}

/// A panic escaped from an engine step outside every library-call window: the library panicked
/// while the oracle was merely observing it (len(), size_hint(), cloning an iterator, a second
/// traversal ...). The property that owns the operation in flight reports it; for any other
/// armed property the rest of the case is discarded.
pub fn escaped_panic(cx: &mut Ctx, liar: bool, set_engine: bool, payload: Box<dyn std::any::Any + Send>) {
    let msg: String = if let Some(s) = payload.downcast_ref::<&'static str>() {
        (*s).to_string()
    } else if let Some(s) = payload.downcast_ref::<String>() {
        s.clone()
    } else {
        "<non-string payload>".to_string()
    };
    let owner = match cx.cur_op {
        "walk" => Prop::C09,
        "consume" | "drain" => Prop::C10,
        "entry" => Prop::C11,
        "clone" => Prop::C15,
        "get_disjoint_mut" | "disjoint_sweep" => Prop::C13,
        "overflow_sweep" | "capacity" => Prop::C03,
        "fmt" => Prop::C19,
        "eq" | "eq/sub" => Prop::C14,
        "from_iter" | "extend" => Prop::C16,
        "insert_unchecked" => Prop::C18,
        _ => {
            if set_engine {
                Prop::C07
            } else {
                Prop::C01
            }
        }
    };
    if liar || cx.armed != owner {
        cx.discard = true;
        cx.bump(S::discarded_setups);
        let an = cx.armed.name();
        cx.log(|| format!("   (panic while observing the container, not owned by {an}: {msg})"));
        return;
    }
    cx.chk(PS::of(owner), false, "panic-while-observing", || format!("the library panicked while the oracle was observing it (outside any call the model expects to panic): {msg}"));
}

/// An iterator under test kept in storage the harness owns, so that it can be *relocated* between
/// two steps: moved (a bitwise copy, which is all a Rust move is) to another place, after which
/// the bytes of the old place are overwritten. Every Rust value must survive that; an iterator
/// that caches a pointer into itself (set up at the first `next`) keeps reading the old place.
pub struct Roving<I> {
    slots: [std::mem::MaybeUninit<I>; 2],
    cur: usize,
}

impl<I> Roving<I> {
    pub fn new(it: I) -> Self {
        Roving { slots: [std::mem::MaybeUninit::new(it), std::mem::MaybeUninit::uninit()], cur: 0 }
    }
    #[inline]
    pub fn get(&mut self) -> &mut I {
        // SAFETY: slots[cur] always holds the live iterator
        unsafe { self.slots[self.cur].assume_init_mut() }
    }
    fn scrub(slot: &mut std::mem::MaybeUninit<I>) {
        // SAFETY: the slot's value has been moved out; its bytes are dead storage
        unsafe { std::ptr::write_bytes(slot.as_mut_ptr() as *mut u8, 0xA5, std::mem::size_of::<I>()) }
    }
    /// move the iterator to the other slot and overwrite the place it came from
    pub fn relocate(&mut self) {
        // SAFETY: a move: read out of the live slot, which is dead afterwards
        let it = unsafe { self.slots[self.cur].assume_init_read() };
        Self::scrub(&mut self.slots[self.cur]);
        self.cur ^= 1;
        self.slots[self.cur].write(it);
    }
    /// move the iterator out (the place it lived in is overwritten)
    pub fn into_inner(mut self) -> I {
        let it = unsafe { self.slots[self.cur].assume_init_read() };
        Self::scrub(&mut self.slots[self.cur]);
        std::mem::forget(self);
        it
    }
}

impl<I> Drop for Roving<I> {
    fn drop(&mut self) {
        // SAFETY: slots[cur] holds the live iterator
        unsafe { self.slots[self.cur].assume_init_drop() }
    }
}
