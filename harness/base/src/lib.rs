//! Shared machinery of the micromap verification harness: instrumented payloads, thread-local
//! ledger/fuse/liar/allocator, case format, per-case context, plans.
#![allow(clippy::all)]
pub mod case;
pub mod ctx;
pub mod fmtutil;
pub mod kinds;
pub mod plan;
pub mod probe;
pub mod tl;

/// capacities compiled per kind (indices into this list are what `Case::cap` selects)
pub fn caps_for_kind(kind: u8) -> &'static [usize] {
    match kind % case::NKINDS {
        0 => &case::CAPS,
        1 => &case::CAPS,
        2 => &[0, 1, 2, 3, 4, 6],
        3 => &[0, 1, 2, 4],
        4 => &[0, 1],
        5 => &[0, 1, 3],
        6 => &[0, 1, 2, 3, 4, 6],
        7 => &[0, 1, 2],
        8 => &[0, 1, 2, 3, 4, 6, 9],
        10 => &[0, 1, 2],
        11 => &[0, 1, 2, 3, 4, 6],
        _ => &[0, 1, 2, 3, 4, 6],
    }
}

pub fn capacity_of(case: &case::Case) -> usize {
    let l = caps_for_kind(case.kind);
    l[case.cap as usize % l.len()]
}

#[macro_export]
macro_rules! by_cap {
    ($f:path, $kd:ty, $n:expr, $case:expr, $cx:expr, [$($c:literal),*]) => {
        match $n {
            $($c => { use $f as run_it; run_it::<$kd, $c>($case, $cx) })*
            _ => unreachable!("capacity not compiled"),
        }
    };
}
