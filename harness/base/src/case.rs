//! Case representation shared by all drivers (proptest, enumeration, libFuzzer, replay).

use std::fmt::Write as _;

#[derive(Clone, Copy, PartialEq, Eq, Debug, Hash, PartialOrd, Ord)]
#[repr(u8)]
pub enum Prop {
    C01 = 1,
    C02,
    C03,
    C04,
    C05,
    C06,
    C07,
    C08,
    C09,
    C10,
    C11,
    C12,
    C13,
    C14,
    C15,
    C16,
    C17,
    C18,
    C19,
    C20,
}

impl Prop {
    pub fn name(self) -> String {
        format!("C{:02}", self as u8)
    }
    pub fn parse(s: &str) -> Option<Prop> {
        let n: u8 = s.strip_prefix('C')?.parse().ok()?;
        Prop::from_u8(n)
    }
    pub fn from_u8(n: u8) -> Option<Prop> {
        if (1..=20).contains(&n) {
            Some(unsafe { std::mem::transmute::<u8, Prop>(n) })
        } else {
            None
        }
    }
    pub const fn bit(self) -> u32 {
        1u32 << (self as u8)
    }
}

/// Set of properties (owners of an assertion).
#[derive(Clone, Copy, PartialEq, Eq, Debug)]
pub struct PS(pub u32);
impl PS {
    pub const NONE: PS = PS(0);
    pub const fn of(p: Prop) -> PS {
        PS(p.bit())
    }
    pub const fn and(self, p: Prop) -> PS {
        PS(self.0 | p.bit())
    }
    pub const fn has(self, p: Prop) -> bool {
        self.0 & p.bit() != 0
    }
    pub const fn inter(self, o: PS) -> PS {
        PS(self.0 & o.0)
    }
    pub const fn union(self, o: PS) -> PS {
        PS(self.0 | o.0)
    }
}

#[derive(Clone, Copy, PartialEq, Eq, Debug, Hash)]
pub enum Engine {
    MapHist,
    SetHist,
    SetAlg,
    MapEq,
    Wide,
    Fmt,
    Slices,
}

impl Engine {
    pub fn name(self) -> &'static str {
        match self {
            Engine::MapHist => "maphist",
            Engine::SetHist => "sethist",
            Engine::SetAlg => "setalg",
            Engine::MapEq => "mapeq",
            Engine::Wide => "wide",
            Engine::Fmt => "fmt",
            Engine::Slices => "slices",
        }
    }
    pub fn parse(s: &str) -> Option<Engine> {
        Some(match s {
            "maphist" => Engine::MapHist,
            "sethist" => Engine::SetHist,
            "setalg" => Engine::SetAlg,
            "mapeq" => Engine::MapEq,
            "wide" => Engine::Wide,
            "fmt" => Engine::Fmt,
            "slices" => Engine::Slices,
            _ => return None,
        })
    }
    pub fn code(self) -> u8 {
        match self {
            Engine::MapHist => 0,
            Engine::SetHist => 1,
            Engine::SetAlg => 2,
            Engine::MapEq => 3,
            Engine::Wide => 4,
            Engine::Fmt => 5,
            Engine::Slices => 6,
        }
    }
    pub fn from_code(c: u8) -> Engine {
        match c % 7 {
            0 => Engine::MapHist,
            1 => Engine::SetHist,
            2 => Engine::SetAlg,
            3 => Engine::MapEq,
            4 => Engine::Wide,
            6 => Engine::Slices,
            _ => Engine::Fmt,
        }
    }
}

pub const KINDS: [&str; 12] = ["tracked", "plain", "string", "large", "zstkey", "zstval", "nodrop", "zstboth", "tagged", "path", "zstdrop", "fattag"];
pub const NKINDS: u8 = 12;

/// Compiled capacities for single-container engines.
pub const CAPS: [usize; 12] = [0, 1, 2, 3, 4, 6, 9, 17, 33, 70, 32, 64];
/// indices of the large capacities (past the 32- and 64-entry marks), used by the `*-big` campaigns
pub const BIG_CAPS: [u8; 4] = [8, 9, 10, 11];
/// Compiled capacities for pair engines (left and right operand).
pub const CAPS2: [usize; 5] = [0, 1, 2, 3, 5];

#[derive(Clone, PartialEq, Eq, Debug, Hash)]
pub struct Case {
    pub engine: Engine,
    pub prop: Prop,
    /// index into KINDS
    pub kind: u8,
    /// index into CAPS (or CAPS2 for pair engines)
    pub cap: u8,
    pub cap2: u8,
    /// size of the key universe
    pub univ: u8,
    /// engine-specific mode byte (liar mode, fault flag, ...)
    pub mode: u8,
    /// fuse position for fault runs (-1 = disarmed)
    pub fuse: i32,
    pub ops: Vec<[u8; 4]>,
    /// op lines given by name in a case file ("op clear 0 0 0"): (op index, name). They are
    /// resolved to code bytes against the op-weight table of (engine, prop) after loading, so
    /// that saved cases stay valid when a weight table changes. Empty for generated cases.
    pub named: Vec<(usize, String)>,
}

impl Case {
    pub fn to_text(&self, comments: &[String]) -> String {
        let mut s = String::new();
        let _ = writeln!(s, "case v1");
        let _ = writeln!(s, "engine {}", self.engine.name());
        let _ = writeln!(s, "prop {}", self.prop.name());
        let _ = writeln!(s, "kind {}", KINDS[self.kind as usize % KINDS.len()]);
        let _ = writeln!(s, "cap {}", self.cap);
        let _ = writeln!(s, "cap2 {}", self.cap2);
        let _ = writeln!(s, "univ {}", self.univ);
        let _ = writeln!(s, "mode {}", self.mode);
        let _ = writeln!(s, "fuse {}", self.fuse);
        for o in &self.ops {
            let _ = writeln!(s, "op {} {} {} {}", o[0], o[1], o[2], o[3]);
        }
        for c in comments {
            for line in c.lines() {
                let _ = writeln!(s, "# {line}");
            }
        }
        s
    }

    pub fn from_text(t: &str) -> Result<Case, String> {
        let mut c = Case {
            engine: Engine::MapHist,
            prop: Prop::C01,
            kind: 0,
            cap: 0,
            cap2: 0,
            univ: 1,
            mode: 0,
            fuse: -1,
            ops: vec![],
            named: vec![],
        };
        for (ln, line) in t.lines().enumerate() {
            let line = line.trim();
            if line.is_empty() || line.starts_with('#') {
                continue;
            }
            let mut it = line.split_whitespace();
            let key = it.next().unwrap();
            let rest: Vec<&str> = it.collect();
            let err = || format!("line {}: cannot parse '{}'", ln + 1, line);
            match key {
                "case" => {}
                "engine" => c.engine = Engine::parse(rest.first().ok_or_else(err)?).ok_or_else(err)?,
                "prop" => c.prop = Prop::parse(rest.first().ok_or_else(err)?).ok_or_else(err)?,
                "kind" => {
                    let k = rest.first().ok_or_else(err)?;
                    c.kind = KINDS.iter().position(|x| x == k).ok_or_else(err)? as u8
                }
                "cap" => c.cap = rest.first().ok_or_else(err)?.parse().map_err(|_| err())?,
                "cap2" => c.cap2 = rest.first().ok_or_else(err)?.parse().map_err(|_| err())?,
                "univ" => c.univ = rest.first().ok_or_else(err)?.parse().map_err(|_| err())?,
                "mode" => c.mode = rest.first().ok_or_else(err)?.parse().map_err(|_| err())?,
                "fuse" => c.fuse = rest.first().ok_or_else(err)?.parse().map_err(|_| err())?,
                "op" => {
                    if rest.len() != 4 {
                        return Err(err());
                    }
                    let mut o = [0u8; 4];
                    for i in 0..4 {
                        if i == 0 && rest[0].parse::<u8>().is_err() {
                            c.named.push((c.ops.len(), rest[0].to_string()));
                            continue;
                        }
                        o[i] = rest[i].parse().map_err(|_| err())?;
                    }
                    c.ops.push(o);
                }
                _ => return Err(err()),
            }
        }
        Ok(c)
    }

    /// Byte encoding used by the fuzz targets: 8 header bytes + 4 per op. engine and prop are
    /// fixed by the fuzz target / environment, not by the input.
    pub fn from_bytes(engine: Engine, prop: Prop, data: &[u8]) -> Case {
        let h = |i: usize| data.get(i).copied().unwrap_or(0);
        let mut ops = Vec::new();
        if data.len() > 8 {
            for ch in data[8..].chunks(4) {
                if ch.len() == 4 {
                    ops.push([ch[0], ch[1], ch[2], ch[3]]);
                }
            }
        }
        Case { engine, prop, kind: h(0), cap: h(1), cap2: h(2), univ: h(3), mode: h(4), fuse: -1, ops, named: vec![] }
    }

    pub fn to_bytes(&self) -> Vec<u8> {
        let mut v = vec![self.kind, self.cap, self.cap2, self.univ, self.mode, 0, 0, 0];
        for o in &self.ops {
            v.extend_from_slice(o);
        }
        v
    }

    pub fn hash64(&self) -> u64 {
        // FNV-1a over the normalised fields
        let mut h: u64 = 0xcbf29ce484222325;
        let mut f = |b: u8| {
            h ^= b as u64;
            h = h.wrapping_mul(0x100000001b3);
        };
        f(self.engine.code());
        f(self.kind);
        f(self.cap);
        f(self.cap2);
        f(self.univ);
        f(self.mode);
        for b in self.fuse.to_le_bytes() {
            f(b);
        }
        for o in &self.ops {
            for b in o {
                f(*b);
            }
        }
        h
    }
}

/// monotone scaling of a byte onto 0..n (n >= 1): smaller byte, smaller result
#[inline]
pub fn scale(b: u8, n: usize) -> usize {
    (b as usize * n) >> 8
}
