//! Element "kinds": the payload types the engines are instantiated with.

use crate::tl::{Raw, TK, TV};
use std::borrow::Borrow;
use std::fmt;

pub trait Kind: 'static {
    type K: PartialEq + Eq + Borrow<Self::Q> + Clone + fmt::Debug + fmt::Display;
    type Q: PartialEq + Eq + ?Sized;
    /// owned carrier of a borrowed-form query
    type QO: Borrow<Self::Q>;
    type V: Clone + PartialEq + Default + fmt::Debug + fmt::Display;
    const NAME: &'static str;
    /// objects are ledger-tracked and equal keys are distinguishable
    const TRACKED: bool;
    /// payload never allocates and runs no harness code that allocates (C06)
    const NOALLOC: bool;
    /// equal keys (and values) are distinguishable objects: `kid` / `vid` identify them.
    /// True for the ledger-tracked kind and for the tagged plain-data kind.
    const IDENT: bool = Self::TRACKED;
    /// largest universe the key type supports
    const MAX_UNIV: u8 = 255;
    fn key(raw: u8) -> Self::K;
    fn qo(raw: u8) -> Self::QO;
    fn q(qo: &Self::QO) -> &Self::Q {
        qo.borrow()
    }
    /// another spelling of the same borrowed-form query (equal to `qo(raw)` under `Q: Eq`, but
    /// possibly of a different byte length); kinds with one spelling return `qo(raw)`
    fn qo_alt(raw: u8, _variant: usize) -> Self::QO {
        Self::qo(raw)
    }
    fn val(x: u32) -> Self::V;
    fn kraw(k: &Self::K) -> u8;
    fn kid(k: &Self::K) -> u32;
    fn vval(v: &Self::V) -> u32;
    fn vid(v: &Self::V) -> u32;
    fn vset(v: &mut Self::V, x: u32);
    /// value number as the payload can represent it (ZST values carry nothing)
    fn vnorm(x: u32) -> u32 {
        x
    }
    fn klive(_k: &Self::K) -> bool {
        true
    }
    fn vlive(_v: &Self::V) -> bool {
        true
    }
    /// payload counts its own `Clone::clone` calls and stamps a generation (kinds without drop glue)
    const COUNTS_CLONES: bool = false;
    /// clones carry a generation stamp one above their source (`kgen` / `vgen`)
    const STAMPS_GEN: bool = false;
    /// how many of (key, value) are counted by `clone_calls` per cloned entry
    const CLONES_PER_ENTRY: u64 = 2;
    fn clone_calls() -> u64 {
        0
    }
    fn kgen(_k: &Self::K) -> u32 {
        0
    }
    fn vgen(_v: &Self::V) -> u32 {
        0
    }
    /// payload keeps its own count of live key / value objects (zero-sized payloads with drop
    /// glue, which a serial-number ledger cannot tell apart): `live()` = created - destroyed
    const COUNTS_LIVE: bool = false;
    fn live() -> (i64, i64) {
        (0, 0)
    }
    fn live_reset() {}
    /// objects that may legitimately have been leaked (a forgotten iterator, an injected panic):
    /// lower the live counts to what is stored
    fn live_forgive(_stored_k: i64, _stored_v: i64) {}
    /// expected rendering by `{:?}` of key / value (for the fmt engine)
    fn kdbg(raw: u8) -> String;
    fn vdbg(x: u32) -> String;
    fn kdisp(raw: u8) -> String;
    fn vdisp(x: u32) -> String;
}

pub const NOID: u32 = u32::MAX;

/// Ledger-tracked key/value objects; borrowed form `Raw`.
pub struct Tracked;
impl Kind for Tracked {
    type K = TK;
    type Q = Raw;
    type QO = Raw;
    type V = TV;
    const NAME: &'static str = "tracked";
    const TRACKED: bool = true;
    const NOALLOC: bool = false;
    fn key(raw: u8) -> TK {
        TK::new(raw)
    }
    fn qo(raw: u8) -> Raw {
        Raw(raw)
    }
    fn val(x: u32) -> TV {
        TV::new(x)
    }
    fn kraw(k: &TK) -> u8 {
        k.raw.0
    }
    fn kid(k: &TK) -> u32 {
        k.serial
    }
    fn vval(v: &TV) -> u32 {
        v.val
    }
    fn vid(v: &TV) -> u32 {
        v.serial
    }
    fn vset(v: &mut TV, x: u32) {
        v.val = x
    }
    fn klive(k: &TK) -> bool {
        crate::tl::obj_live(k.serial, k.magic)
    }
    fn vlive(v: &TV) -> bool {
        crate::tl::obj_live(v.serial, v.magic)
    }
    fn kdbg(raw: u8) -> String {
        format!("k{raw}")
    }
    fn vdbg(x: u32) -> String {
        format!("v{x}")
    }
    fn kdisp(raw: u8) -> String {
        format!("k{raw}")
    }
    fn vdisp(x: u32) -> String {
        format!("v{x}")
    }
}

/// Plain Copy payload with no distinct borrowed form; never allocates.
pub struct Plain;
impl Kind for Plain {
    type K = u8;
    type Q = u8;
    type QO = u8;
    type V = u32;
    const NAME: &'static str = "plain";
    const TRACKED: bool = false;
    const NOALLOC: bool = true;
    fn key(raw: u8) -> u8 {
        raw
    }
    fn qo(raw: u8) -> u8 {
        raw
    }
    fn val(x: u32) -> u32 {
        x
    }
    fn kraw(k: &u8) -> u8 {
        *k
    }
    fn kid(_: &u8) -> u32 {
        NOID
    }
    fn vval(v: &u32) -> u32 {
        *v
    }
    fn vid(_: &u32) -> u32 {
        NOID
    }
    fn vset(v: &mut u32, x: u32) {
        *v = x
    }
    fn kdbg(raw: u8) -> String {
        format!("{raw}")
    }
    fn vdbg(x: u32) -> String {
        format!("{x}")
    }
    fn kdisp(raw: u8) -> String {
        format!("{raw}")
    }
    fn vdisp(x: u32) -> String {
        format!("{x}")
    }
}

/// Heap-owning payload with the classic distinct borrowed form `str`.
pub struct Str;
fn skey(raw: u8) -> String {
    // keys of different length and content; never empty; every fifth key is longer than any
    // plausible internal staging buffer (a single Display / Debug piece of 70+ bytes)
    let pad = if raw % 5 == 4 { 70 + (raw % 7) as usize } else { (raw % 3) as usize };
    format!("key-{raw}{}", "x".repeat(pad))
}
impl Kind for Str {
    type K = String;
    type Q = str;
    type QO = String;
    type V = Box<u32>;
    const NAME: &'static str = "string";
    const TRACKED: bool = false;
    const NOALLOC: bool = false;
    fn key(raw: u8) -> String {
        skey(raw)
    }
    fn qo(raw: u8) -> String {
        skey(raw)
    }
    fn val(x: u32) -> Box<u32> {
        Box::new(x)
    }
    fn kraw(k: &String) -> u8 {
        k.trim_start_matches("key-").trim_end_matches('x').parse::<u8>().unwrap_or(255)
    }
    fn kid(_: &String) -> u32 {
        NOID
    }
    fn vval(v: &Box<u32>) -> u32 {
        **v
    }
    fn vid(_: &Box<u32>) -> u32 {
        NOID
    }
    fn vset(v: &mut Box<u32>, x: u32) {
        **v = x
    }
    fn kdbg(raw: u8) -> String {
        format!("{:?}", skey(raw))
    }
    fn vdbg(x: u32) -> String {
        format!("{x}")
    }
    fn kdisp(raw: u8) -> String {
        skey(raw)
    }
    fn vdisp(x: u32) -> String {
        format!("{x}")
    }
}

/// Large values (128 bytes): a one-slot overwrite is far outside any neighbouring slot.
#[derive(Clone, PartialEq, Debug)]
#[repr(align(32))]
pub struct Big(pub [u64; 16]);
impl Default for Big {
    fn default() -> Self {
        // the pattern `vval` recognises as the value 0
        let mut a = [0x5555_5555_5555_5555u64; 16];
        a[0] = 0;
        Big(a)
    }
}
impl fmt::Display for Big {
    fn fmt(&self, f: &mut fmt::Formatter<'_>) -> fmt::Result {
        write!(f, "B{}", self.0[0])
    }
}
pub struct Large;
impl Kind for Large {
    type K = u16;
    type Q = u16;
    type QO = u16;
    type V = Big;
    const NAME: &'static str = "large";
    const TRACKED: bool = false;
    const NOALLOC: bool = true;
    fn key(raw: u8) -> u16 {
        raw as u16 * 257
    }
    fn qo(raw: u8) -> u16 {
        raw as u16 * 257
    }
    fn val(x: u32) -> Big {
        let mut a = [x as u64 ^ 0x5555_5555_5555_5555; 16];
        a[0] = x as u64;
        Big(a)
    }
    fn kraw(k: &u16) -> u8 {
        (*k / 257) as u8
    }
    fn kid(_: &u16) -> u32 {
        NOID
    }
    fn vval(v: &Big) -> u32 {
        if v.0[1..].iter().all(|w| *w == (v.0[0] ^ 0x5555_5555_5555_5555)) {
            v.0[0] as u32
        } else {
            u32::MAX
        }
    }
    fn vid(_: &Big) -> u32 {
        NOID
    }
    fn vset(v: &mut Big, x: u32) {
        *v = Self::val(x)
    }
    fn kdbg(raw: u8) -> String {
        format!("{}", raw as u16 * 257)
    }
    fn vdbg(x: u32) -> String {
        format!("{:?}", Self::val(x))
    }
    fn kdisp(raw: u8) -> String {
        format!("{}", raw as u16 * 257)
    }
    fn vdisp(x: u32) -> String {
        format!("B{x}")
    }
}

/// Zero-sized key: a map can hold at most one distinct key.
thread_local! {
    static ZST_CLONES: std::cell::Cell<u64> = const { std::cell::Cell::new(0) };
}
fn zst_cloned() {
    ZST_CLONES.with(|c| c.set(c.get() + 1));
}
/// zero-sized, `Copy`, with a hand-written `Clone` that is counted (a "nothing to copy"
/// shortcut for zero-sized pairs that skips `Clone::clone` is visible)
#[derive(PartialEq, Eq, Debug, Default)]
pub struct Unit;
impl Clone for Unit {
    #[allow(clippy::non_canonical_clone_impl)]
    fn clone(&self) -> Unit {
        zst_cloned();
        Unit
    }
}
impl Copy for Unit {}
impl fmt::Display for Unit {
    fn fmt(&self, f: &mut fmt::Formatter<'_>) -> fmt::Result {
        write!(f, "U")
    }
}
pub struct ZstKey;
impl Kind for ZstKey {
    type K = Unit;
    type Q = Unit;
    type QO = Unit;
    type V = u32;
    const NAME: &'static str = "zstkey";
    const TRACKED: bool = false;
    const NOALLOC: bool = true;
    const MAX_UNIV: u8 = 1;
    const COUNTS_CLONES: bool = true;
    const CLONES_PER_ENTRY: u64 = 1;
    fn clone_calls() -> u64 {
        ZST_CLONES.with(|c| c.get())
    }
    fn key(_: u8) -> Unit {
        Unit
    }
    fn qo(_: u8) -> Unit {
        Unit
    }
    fn val(x: u32) -> u32 {
        x
    }
    fn kraw(_: &Unit) -> u8 {
        0
    }
    fn kid(_: &Unit) -> u32 {
        NOID
    }
    fn vval(v: &u32) -> u32 {
        *v
    }
    fn vid(_: &u32) -> u32 {
        NOID
    }
    fn vset(v: &mut u32, x: u32) {
        *v = x
    }
    fn kdbg(_: u8) -> String {
        "Unit".into()
    }
    fn vdbg(x: u32) -> String {
        format!("{x}")
    }
    fn kdisp(_: u8) -> String {
        "U".into()
    }
    fn vdisp(x: u32) -> String {
        format!("{x}")
    }
}

/// Zero-sized *value* with a tracked key (what `Set<TK, N>` stores) is covered by the set
/// engines; this kind gives maps with a ZST value and plain keys.
#[derive(PartialEq, Eq, Debug, Default)]
pub struct Nil;
impl Clone for Nil {
    #[allow(clippy::non_canonical_clone_impl)]
    fn clone(&self) -> Nil {
        zst_cloned();
        Nil
    }
}
impl Copy for Nil {}
impl fmt::Display for Nil {
    fn fmt(&self, f: &mut fmt::Formatter<'_>) -> fmt::Result {
        write!(f, "nil")
    }
}
pub struct ZstVal;
impl Kind for ZstVal {
    type K = u8;
    type Q = u8;
    type QO = u8;
    type V = Nil;
    const NAME: &'static str = "zstval";
    const TRACKED: bool = false;
    const NOALLOC: bool = true;
    fn key(raw: u8) -> u8 {
        raw
    }
    fn qo(raw: u8) -> u8 {
        raw
    }
    fn val(_: u32) -> Nil {
        Nil
    }
    fn kraw(k: &u8) -> u8 {
        *k
    }
    fn kid(_: &u8) -> u32 {
        NOID
    }
    fn vval(_: &Nil) -> u32 {
        0
    }
    fn vid(_: &Nil) -> u32 {
        NOID
    }
    fn vset(_: &mut Nil, _: u32) {}
    fn vnorm(_: u32) -> u32 {
        0
    }
    fn kdbg(raw: u8) -> String {
        format!("{raw}")
    }
    fn vdbg(_: u32) -> String {
        "Nil".into()
    }
    fn kdisp(raw: u8) -> String {
        format!("{raw}")
    }
    fn vdisp(_: u32) -> String {
        "nil".into()
    }
}

/// Payload with a hand-written, observable `Clone` and **no drop glue**: `needs_drop` is false
/// for it although it is not `Copy`, so a "plain data" shortcut keyed on `needs_drop` (bitwise
/// copy instead of `Clone::clone`) is visible. Equality looks at `raw` only; the borrowed form
/// is the `u8` inside.
use std::cell::Cell;
thread_local! {
    static ND_CLONES: Cell<u64> = const { Cell::new(0) };
}
pub struct NK {
    pub raw: u8,
    pub gen: u32,
    /// constant marker: bytes that never were an NK (an uninitialised slot) do not carry it
    pub magic: u32,
}
pub const ND_MAGIC: u32 = 0x4E44_6B31;
impl PartialEq for NK {
    fn eq(&self, o: &NK) -> bool {
        crate::tl::tick(crate::tl::Cb::KeyEq);
        self.raw == o.raw
    }
}
impl Eq for NK {}
impl Clone for NK {
    fn clone(&self) -> NK {
        crate::tl::tick(crate::tl::Cb::KeyClone);
        ND_CLONES.with(|c| c.set(c.get() + 1));
        NK { raw: self.raw, gen: self.gen + 1, magic: self.magic }
    }
}
impl Borrow<u8> for NK {
    fn borrow(&self) -> &u8 {
        &self.raw
    }
}
impl fmt::Display for NK {
    fn fmt(&self, f: &mut fmt::Formatter<'_>) -> fmt::Result {
        write!(f, "n{}", self.raw)
    }
}
impl fmt::Debug for NK {
    fn fmt(&self, f: &mut fmt::Formatter<'_>) -> fmt::Result {
        write!(f, "n{}", self.raw)
    }
}
pub struct NV {
    pub val: u32,
    pub gen: u32,
    pub magic: u32,
}
impl Default for NV {
    fn default() -> NV {
        crate::tl::tick(crate::tl::Cb::ValDefault);
        NV { val: 0, gen: 0, magic: ND_MAGIC }
    }
}
impl PartialEq for NV {
    fn eq(&self, o: &NV) -> bool {
        self.val == o.val
    }
}
impl Clone for NV {
    fn clone(&self) -> NV {
        crate::tl::tick(crate::tl::Cb::ValClone);
        ND_CLONES.with(|c| c.set(c.get() + 1));
        NV { val: self.val, gen: self.gen + 1, magic: self.magic }
    }
}
impl fmt::Display for NV {
    fn fmt(&self, f: &mut fmt::Formatter<'_>) -> fmt::Result {
        write!(f, "w{}", self.val)
    }
}
impl fmt::Debug for NV {
    fn fmt(&self, f: &mut fmt::Formatter<'_>) -> fmt::Result {
        write!(f, "w{}", self.val)
    }
}
pub struct NoDrop;
impl Kind for NoDrop {
    type K = NK;
    type Q = u8;
    type QO = u8;
    type V = NV;
    const NAME: &'static str = "nodrop";
    const TRACKED: bool = false;
    const NOALLOC: bool = true;
    const COUNTS_CLONES: bool = true;
    const STAMPS_GEN: bool = true;
    fn clone_calls() -> u64 {
        ND_CLONES.with(|c| c.get())
    }
    fn kgen(k: &NK) -> u32 {
        k.gen
    }
    fn klive(k: &NK) -> bool {
        k.magic == ND_MAGIC
    }
    fn vlive(v: &NV) -> bool {
        v.magic == ND_MAGIC
    }
    fn vgen(v: &NV) -> u32 {
        v.gen
    }
    fn key(raw: u8) -> NK {
        NK { raw, gen: 0, magic: ND_MAGIC }
    }
    fn qo(raw: u8) -> u8 {
        raw
    }
    fn val(x: u32) -> NV {
        NV { val: x, gen: 0, magic: ND_MAGIC }
    }
    fn kraw(k: &NK) -> u8 {
        k.raw
    }
    fn kid(_: &NK) -> u32 {
        NOID
    }
    fn vval(v: &NV) -> u32 {
        v.val
    }
    fn vid(_: &NV) -> u32 {
        NOID
    }
    fn vset(v: &mut NV, x: u32) {
        v.val = x
    }
    fn kdbg(raw: u8) -> String {
        format!("n{raw}")
    }
    fn vdbg(x: u32) -> String {
        format!("w{x}")
    }
    fn kdisp(raw: u8) -> String {
        format!("n{raw}")
    }
    fn vdisp(x: u32) -> String {
        format!("w{x}")
    }
}

/// Zero-sized key *and* value: the whole `(K, V)` pair is zero-sized (pointer-range iterators
/// over such slices are empty unless they count elements). At most one entry.
pub struct ZstBoth;
impl Kind for ZstBoth {
    type K = Unit;
    type Q = Unit;
    type QO = Unit;
    type V = Nil;
    const NAME: &'static str = "zstboth";
    const TRACKED: bool = false;
    const NOALLOC: bool = true;
    const MAX_UNIV: u8 = 1;
    const COUNTS_CLONES: bool = true;
    fn clone_calls() -> u64 {
        ZST_CLONES.with(|c| c.get())
    }
    fn key(_: u8) -> Unit {
        Unit
    }
    fn qo(_: u8) -> Unit {
        Unit
    }
    fn val(_: u32) -> Nil {
        Nil
    }
    fn kraw(_: &Unit) -> u8 {
        0
    }
    fn kid(_: &Unit) -> u32 {
        NOID
    }
    fn vval(_: &Nil) -> u32 {
        0
    }
    fn vid(_: &Nil) -> u32 {
        NOID
    }
    fn vset(_: &mut Nil, _: u32) {}
    fn vnorm(_: u32) -> u32 {
        0
    }
    fn kdbg(_: u8) -> String {
        "Unit".into()
    }
    fn vdbg(_: u32) -> String {
        "Nil".into()
    }
    fn kdisp(_: u8) -> String {
        "U".into()
    }
    fn vdisp(_: u32) -> String {
        "nil".into()
    }
}

/// Zero-sized key and value *with drop glue* (and not `Copy`): the pair occupies no bytes, so a
/// pointer-range walk over the slots is empty, yet every pair has to be destroyed exactly once.
/// Objects cannot be told apart; ownership is decided by counting: created - destroyed must
/// equal the number of stored objects (plus what a forgotten iterator may have leaked).
thread_local! {
    static ZD_LIVE_K: Cell<i64> = const { Cell::new(0) };
    static ZD_LIVE_V: Cell<i64> = const { Cell::new(0) };
}
pub struct DK(());
impl DK {
    pub fn new() -> DK {
        ZD_LIVE_K.with(|c| c.set(c.get() + 1));
        DK(())
    }
}
impl Clone for DK {
    fn clone(&self) -> DK {
        crate::tl::tick(crate::tl::Cb::KeyClone);
        zst_cloned();
        DK::new()
    }
}
impl Drop for DK {
    fn drop(&mut self) {
        ZD_LIVE_K.with(|c| c.set(c.get() - 1));
        crate::tl::tick(crate::tl::Cb::KeyDrop);
    }
}
impl PartialEq for DK {
    fn eq(&self, _: &DK) -> bool {
        crate::tl::tick(crate::tl::Cb::KeyEq);
        true
    }
}
impl Eq for DK {}
impl fmt::Debug for DK {
    fn fmt(&self, f: &mut fmt::Formatter<'_>) -> fmt::Result {
        write!(f, "DK")
    }
}
impl fmt::Display for DK {
    fn fmt(&self, f: &mut fmt::Formatter<'_>) -> fmt::Result {
        write!(f, "D")
    }
}
pub struct DV(());
impl DV {
    pub fn new() -> DV {
        ZD_LIVE_V.with(|c| c.set(c.get() + 1));
        DV(())
    }
}
impl Default for DV {
    fn default() -> DV {
        crate::tl::tick(crate::tl::Cb::ValDefault);
        DV::new()
    }
}
impl Clone for DV {
    fn clone(&self) -> DV {
        crate::tl::tick(crate::tl::Cb::ValClone);
        zst_cloned();
        DV::new()
    }
}
impl Drop for DV {
    fn drop(&mut self) {
        ZD_LIVE_V.with(|c| c.set(c.get() - 1));
        crate::tl::tick(crate::tl::Cb::ValDrop);
    }
}
impl PartialEq for DV {
    fn eq(&self, _: &DV) -> bool {
        true
    }
}
impl fmt::Debug for DV {
    fn fmt(&self, f: &mut fmt::Formatter<'_>) -> fmt::Result {
        write!(f, "DV")
    }
}
impl fmt::Display for DV {
    fn fmt(&self, f: &mut fmt::Formatter<'_>) -> fmt::Result {
        write!(f, "dv")
    }
}
pub struct ZstDrop;
impl Kind for ZstDrop {
    type K = DK;
    type Q = DK;
    type QO = DK;
    type V = DV;
    const NAME: &'static str = "zstdrop";
    const TRACKED: bool = false;
    const NOALLOC: bool = true;
    const MAX_UNIV: u8 = 1;
    const COUNTS_CLONES: bool = true;
    const COUNTS_LIVE: bool = true;
    fn clone_calls() -> u64 {
        ZST_CLONES.with(|c| c.get())
    }
    fn live() -> (i64, i64) {
        (ZD_LIVE_K.with(|c| c.get()), ZD_LIVE_V.with(|c| c.get()))
    }
    fn live_reset() {
        ZD_LIVE_K.with(|c| c.set(0));
        ZD_LIVE_V.with(|c| c.set(0));
    }
    fn live_forgive(sk: i64, sv: i64) {
        ZD_LIVE_K.with(|c| c.set(c.get().min(sk)));
        ZD_LIVE_V.with(|c| c.set(c.get().min(sv)));
    }
    fn key(_: u8) -> DK {
        DK::new()
    }
    fn qo(_: u8) -> DK {
        DK::new()
    }
    fn val(_: u32) -> DV {
        DV::new()
    }
    fn kraw(_: &DK) -> u8 {
        0
    }
    fn kid(_: &DK) -> u32 {
        NOID
    }
    fn vval(_: &DV) -> u32 {
        0
    }
    fn vid(_: &DV) -> u32 {
        NOID
    }
    fn vset(_: &mut DV, _: u32) {}
    fn vnorm(_: u32) -> u32 {
        0
    }
    fn kdbg(_: u8) -> String {
        "DK".into()
    }
    fn vdbg(_: u32) -> String {
        "DV".into()
    }
    fn kdisp(_: u8) -> String {
        "D".into()
    }
    fn vdisp(_: u32) -> String {
        "dv".into()
    }
}

/// Plain `Copy` data without drop glue whose keys are equal-but-distinguishable: equality looks
/// at `raw` only, `tag` is a per-construction serial number. Identity oracles (C12, C18, C16)
/// apply, ownership oracles do not (nothing to drop). A fast path keyed on `needs_drop` or on
/// `Copy`-likeness that swaps, keeps or overwrites the wrong key object is visible here.
thread_local! {
    static TAGS: Cell<u32> = const { Cell::new(0) };
}
fn next_tag() -> u32 {
    TAGS.with(|c| {
        let v = c.get().wrapping_add(1) & 0x7FFF_FFFF;
        c.set(v);
        v
    })
}
#[derive(Clone, Copy)]
pub struct GK {
    pub raw: u8,
    pub tag: u32,
}
impl PartialEq for GK {
    fn eq(&self, o: &GK) -> bool {
        crate::tl::tick(crate::tl::Cb::KeyEq);
        self.raw == o.raw
    }
}
impl Eq for GK {}
impl Borrow<u8> for GK {
    fn borrow(&self) -> &u8 {
        &self.raw
    }
}
impl fmt::Debug for GK {
    fn fmt(&self, f: &mut fmt::Formatter<'_>) -> fmt::Result {
        write!(f, "g{}", self.raw)
    }
}
impl fmt::Display for GK {
    fn fmt(&self, f: &mut fmt::Formatter<'_>) -> fmt::Result {
        write!(f, "g{}", self.raw)
    }
}
#[derive(Clone, Copy, Default)]
pub struct GV {
    pub val: u32,
    pub tag: u32,
}
impl PartialEq for GV {
    fn eq(&self, o: &GV) -> bool {
        self.val == o.val
    }
}
impl fmt::Debug for GV {
    fn fmt(&self, f: &mut fmt::Formatter<'_>) -> fmt::Result {
        write!(f, "h{}", self.val)
    }
}
impl fmt::Display for GV {
    fn fmt(&self, f: &mut fmt::Formatter<'_>) -> fmt::Result {
        write!(f, "h{}", self.val)
    }
}
pub struct Tagged;
impl Kind for Tagged {
    type K = GK;
    type Q = u8;
    type QO = u8;
    type V = GV;
    const NAME: &'static str = "tagged";
    const TRACKED: bool = false;
    const NOALLOC: bool = true;
    const IDENT: bool = true;
    fn key(raw: u8) -> GK {
        GK { raw, tag: next_tag() }
    }
    fn qo(raw: u8) -> u8 {
        raw
    }
    fn val(x: u32) -> GV {
        GV { val: x, tag: next_tag() }
    }
    fn kraw(k: &GK) -> u8 {
        k.raw
    }
    fn kid(k: &GK) -> u32 {
        k.tag
    }
    fn vval(v: &GV) -> u32 {
        v.val
    }
    fn vid(v: &GV) -> u32 {
        v.tag
    }
    fn vset(v: &mut GV, x: u32) {
        v.val = x
    }
    fn kdbg(raw: u8) -> String {
        format!("g{raw}")
    }
    fn vdbg(x: u32) -> String {
        format!("h{x}")
    }
    fn kdisp(raw: u8) -> String {
        format!("g{raw}")
    }
    fn vdisp(x: u32) -> String {
        format!("h{x}")
    }
}

/// The tagged kind again with wide payloads: a key of about 80 bytes and an 80-byte value (a pair
/// of 160 bytes), plain `Copy` data, equal keys distinguishable by their tag.
/// Code that treats pairs differently above some byte size (move as a whole up to a cache line,
/// update in place beyond) is visible to the identity oracles here.
/// The key is an *enum* whose equality crosses variants: which variant an object is depends on
/// the parity of its tag, equality looks at `raw` only. (A `mem::discriminant` pre-check before
/// `==` is wrong for such keys, e.g. `Cow::Borrowed("a") == Cow::Owned("a")`.)
#[derive(Clone, Copy)]
pub enum FK {
    Even { raw: u8, tag: u32, pad: [u64; 8] },
    Odd { pad: [u64; 8], tag: u32, raw: u8 },
}
impl FK {
    pub fn raw(&self) -> u8 {
        match self {
            FK::Even { raw, .. } | FK::Odd { raw, .. } => *raw,
        }
    }
    pub fn tag(&self) -> u32 {
        match self {
            FK::Even { tag, .. } | FK::Odd { tag, .. } => *tag,
        }
    }
    pub fn pad(&self) -> &[u64; 8] {
        match self {
            FK::Even { pad, .. } | FK::Odd { pad, .. } => pad,
        }
    }
}
impl PartialEq for FK {
    fn eq(&self, o: &FK) -> bool {
        crate::tl::tick(crate::tl::Cb::KeyEq);
        self.raw() == o.raw()
    }
}
impl Eq for FK {}
impl Borrow<u8> for FK {
    fn borrow(&self) -> &u8 {
        match self {
            FK::Even { raw, .. } | FK::Odd { raw, .. } => raw,
        }
    }
}
impl fmt::Debug for FK {
    fn fmt(&self, f: &mut fmt::Formatter<'_>) -> fmt::Result {
        write!(f, "G{}", self.raw())
    }
}
impl fmt::Display for FK {
    fn fmt(&self, f: &mut fmt::Formatter<'_>) -> fmt::Result {
        write!(f, "G{}", self.raw())
    }
}
#[derive(Clone, Copy)]
pub struct FV {
    pub val: u32,
    pub tag: u32,
    pub pad: [u64; 9],
}
impl Default for FV {
    fn default() -> FV {
        FV { val: 0, tag: 0, pad: [0x5A5A_5A5A_5A5A_5A5A; 9] }
    }
}
impl PartialEq for FV {
    fn eq(&self, o: &FV) -> bool {
        self.val == o.val
    }
}
impl fmt::Debug for FV {
    fn fmt(&self, f: &mut fmt::Formatter<'_>) -> fmt::Result {
        write!(f, "H{}", self.val)
    }
}
impl fmt::Display for FV {
    fn fmt(&self, f: &mut fmt::Formatter<'_>) -> fmt::Result {
        write!(f, "H{}", self.val)
    }
}
pub struct FatTag;
impl Kind for FatTag {
    type K = FK;
    type Q = u8;
    type QO = u8;
    type V = FV;
    const NAME: &'static str = "fattag";
    const TRACKED: bool = false;
    const NOALLOC: bool = true;
    const IDENT: bool = true;
    fn key(raw: u8) -> FK {
        let tag = next_tag();
        let pad = [raw as u64 * 0x0101_0101_0101_0101; 8];
        if tag % 2 == 0 {
            FK::Even { raw, tag, pad }
        } else {
            FK::Odd { pad, tag, raw }
        }
    }
    fn qo(raw: u8) -> u8 {
        raw
    }
    fn val(x: u32) -> FV {
        FV { val: x, tag: next_tag(), pad: [x as u64; 9] }
    }
    fn kraw(k: &FK) -> u8 {
        k.raw()
    }
    fn kid(k: &FK) -> u32 {
        k.tag()
    }
    fn klive(k: &FK) -> bool {
        *k.pad() == [k.raw() as u64 * 0x0101_0101_0101_0101; 8]
    }
    fn vval(v: &FV) -> u32 {
        v.val
    }
    fn vid(v: &FV) -> u32 {
        v.tag
    }
    fn vset(v: &mut FV, x: u32) {
        v.val = x
    }
    fn kdbg(raw: u8) -> String {
        format!("G{raw}")
    }
    fn vdbg(x: u32) -> String {
        format!("H{x}")
    }
    fn kdisp(raw: u8) -> String {
        format!("G{raw}")
    }
    fn vdisp(x: u32) -> String {
        format!("H{x}")
    }
}

/// Heap-owning keys with an *unsized* borrowed form whose equality is not byte equality:
/// `PathBuf` / `Path` compare by components, so "d7/f", "d7//f" and "d7/f/" are equal queries of
/// different lengths.
pub struct PathK;
#[derive(Clone, PartialEq, Eq)]
pub struct PK(pub std::path::PathBuf);
impl Borrow<std::path::Path> for PK {
    fn borrow(&self) -> &std::path::Path {
        self.0.as_path()
    }
}
impl fmt::Debug for PK {
    fn fmt(&self, f: &mut fmt::Formatter<'_>) -> fmt::Result {
        fmt::Debug::fmt(&self.0, f)
    }
}
impl fmt::Display for PK {
    fn fmt(&self, f: &mut fmt::Formatter<'_>) -> fmt::Result {
        write!(f, "{}", self.0.display())
    }
}
fn pkey(raw: u8) -> std::path::PathBuf {
    std::path::PathBuf::from(format!("d{raw}/f"))
}
impl Kind for PathK {
    type K = PK;
    type Q = std::path::Path;
    type QO = std::path::PathBuf;
    type V = Box<u32>;
    const NAME: &'static str = "path";
    const TRACKED: bool = false;
    const NOALLOC: bool = false;
    fn key(raw: u8) -> PK {
        PK(pkey(raw))
    }
    fn qo(raw: u8) -> std::path::PathBuf {
        pkey(raw)
    }
    fn qo_alt(raw: u8, variant: usize) -> std::path::PathBuf {
        match variant % 3 {
            0 => pkey(raw),
            1 => std::path::PathBuf::from(format!("d{raw}//f")),
            _ => std::path::PathBuf::from(format!("d{raw}/f/")),
        }
    }
    fn val(x: u32) -> Box<u32> {
        Box::new(x)
    }
    fn kraw(k: &PK) -> u8 {
        k.0.components().next().and_then(|c| c.as_os_str().to_str()).and_then(|s| s.strip_prefix('d')).and_then(|s| s.parse::<u8>().ok()).unwrap_or(255)
    }
    fn kid(_: &PK) -> u32 {
        NOID
    }
    fn vval(v: &Box<u32>) -> u32 {
        **v
    }
    fn vid(_: &Box<u32>) -> u32 {
        NOID
    }
    fn vset(v: &mut Box<u32>, x: u32) {
        **v = x
    }
    fn kdbg(raw: u8) -> String {
        format!("{:?}", pkey(raw))
    }
    fn vdbg(x: u32) -> String {
        format!("{x}")
    }
    fn kdisp(raw: u8) -> String {
        format!("d{raw}/f")
    }
    fn vdisp(x: u32) -> String {
        format!("{x}")
    }
}
