//! Per-property campaigns (what is generated, how much) and non-triviality rules.

use crate::case::{Engine, Prop};
use crate::ctx::{NS, S};

#[derive(Clone, Debug)]
pub struct Campaign {
    pub name: &'static str,
    pub engine: Engine,
    /// kind indices to choose from (repeat an index to weight it)
    pub kinds: &'static [u8],
    pub max_ops: usize,
    /// cases per worker: (quick, thorough)
    pub cases: (u32, u32),
    /// restrict capacity indices (None = all compiled for the kind)
    pub caps: Option<&'static [u8]>,
    /// fault enumeration: every callback position of every history
    pub fault: bool,
}

const T: u8 = 0; // tracked
const P: u8 = 1; // plain
const STR: u8 = 2;
const L: u8 = 3;
const ZK: u8 = 4;
const ZV: u8 = 5;
const ND: u8 = 6; // hand-written Clone, no drop glue
const ZB: u8 = 7; // zero-sized key and value
const TG: u8 = 8; // plain Copy data, equal keys distinguishable by a tag
const ZD: u8 = 10; // zero-sized key and value with drop glue (ownership by counting)
const FT: u8 = 11; // tagged plain data with a 72-byte key and an 80-byte value
const PA: u8 = 9; // PathBuf keys, unsized borrowed form Path (equal queries of different lengths)

pub fn campaigns(p: Prop) -> Vec<Campaign> {
    let c = |name, engine, kinds, max_ops, cases| Campaign { name, engine, kinds, max_ops, cases, caps: None, fault: false };
    // campaigns over the large capacities (33 and 70 slots, beyond the 32- and 64-entry marks);
    // each case starts from a generated fill level
    let cb = |name, engine, kinds, max_ops, cases| Campaign { name, engine, kinds, max_ops, cases, caps: Some(&crate::case::BIG_CAPS), fault: false };
    // maps and sets of 300 slots holding more than 255 entries (see maphist::wide)
    // unsized borrowed keys cut from one buffer (`maphist/src/slices.rs`)
    let cs = |cases| Campaign { name: "slices-of-one-buffer", engine: Slices, kinds: &[P], max_ops: 24, cases, caps: None, fault: false };
    let cw = |cases| Campaign { name: "wide-over-255-entries", engine: Wide, kinds: &[P], max_ops: 16, cases, caps: None, fault: false };
    // long histories (hundreds of operations) on small containers: state that only goes wrong after
    // many operations or every k-th call (counters, generations, parity)
    let cl = |name, engine, kinds| Campaign { name, engine, kinds, max_ops: 400, cases: (16, 500), caps: Some(&[1, 2, 3, 4, 5]), fault: false };
    use Engine::*;
    match p {
        Prop::C01 => vec![c("map-histories", MapHist, &[T, T, T, P, P, STR, ZK, ZV, ND, ZB, TG, PA, L, ZD, FT], 40, (2500, 150_000)), cb("map-big", MapHist, &[T, T, P], 30, (100, 4000)), cw((25, 1000)), cl("map-long-histories", MapHist, &[T, T, P]), cs((300, 12_000))],
        Prop::C02 => vec![c("map-ownership", MapHist, &[T, T, T, T, ZD], 40, (2000, 100_000)), c("set-ownership", SetHist, &[T, T, T, T, ZD], 40, (1200, 60_000)), cb("map-big", MapHist, &[T], 30, (100, 4000)), cb("set-big", SetHist, &[T], 30, (60, 2500)), cl("map-long-histories", MapHist, &[T, T, P]), cl("set-long-histories", SetHist, &[T, T, P])],
        Prop::C03 => vec![
            c("map-overflow", MapHist, &[T, T, T, P, P, L, L, STR, ZK, ZV, ZD], 24, (2000, 80_000)),
            c("set-overflow", SetHist, &[T, T, P], 24, (1000, 40_000)), cb("map-big", MapHist, &[T, P], 16, (60, 2500)), cb("set-big", SetHist, &[T, P], 16, (40, 1500))],
        Prop::C04 => vec![
            Campaign { name: "map-faults", engine: MapHist, kinds: &[T, T, T, T, ND, P, ZD], max_ops: 12, cases: (400, 8000), caps: Some(&[0, 1, 2, 3, 4, 5]), fault: true },
            Campaign { name: "set-faults", engine: SetHist, kinds: &[T, T, T, T, ND, P, ZD], max_ops: 12, cases: (250, 5000), caps: Some(&[0, 1, 2, 3, 4, 5]), fault: true },
        ],
        Prop::C05 => vec![Campaign { name: "map-invariants-under-user-panics", engine: MapHist, kinds: &[T, T, P, ND], max_ops: 10, cases: (50, 2000), caps: Some(&[0, 1, 2, 3, 4, 5]), fault: true }, Campaign { name: "set-invariants-under-user-panics", engine: SetHist, kinds: &[T, P, ND], max_ops: 10, cases: (30, 1200), caps: Some(&[0, 1, 2, 3, 4, 5]), fault: true }, c("map-invariants", MapHist, &[T, T, P, STR, ZK, ZV, ZB, PA, L, ZD], 40, (2000, 100_000)), c("set-invariants", SetHist, &[T, T, P, P, ZK, ZD], 40, (1200, 60_000)), cb("map-big", MapHist, &[T, P], 30, (100, 4000)), cb("set-big", SetHist, &[T, P], 30, (60, 2500)), cw((25, 1000)), cl("map-long-histories", MapHist, &[T, T, P]), cl("set-long-histories", SetHist, &[T, T, P]), cs((300, 12_000))],
        Prop::C06 => vec![
            c("map-noalloc", MapHist, &[P, P, P, L, ZK, ZV, ND, ZB, FT], 40, (1500, 60_000)),
            c("set-noalloc", SetHist, &[P, P, ND, ZK], 40, (1000, 40_000)),
            c("alg-noalloc", SetAlg, &[P], 24, (800, 30_000)),
            cb("map-big-noalloc", MapHist, &[P, ND], 30, (80, 3000)),
            cb("set-big-noalloc", SetHist, &[P, ND], 30, (50, 2000)),
            cw((25, 1000)),
            cs((300, 12_000)),
        ],
        Prop::C07 => vec![c("set-histories", SetHist, &[T, T, T, P, P, STR, ZK, ND, TG, PA, ZD, FT], 40, (2500, 150_000)), cb("set-big", SetHist, &[T, T, P], 30, (100, 4000)), cw((25, 1000)), cl("set-long-histories", SetHist, &[T, T, P]), cs((300, 12_000))],
        Prop::C08 => vec![c("set-algebra", SetAlg, &[T, T, P], 28, (1500, 60_000)), cs((300, 12_000)), cw((25, 1000))],
        Prop::C09 => vec![c("map-walks", MapHist, &[T, T, T, P, P, STR, ZK, ZV, ZB, L, ZD], 40, (2000, 80_000)), c("set-walks", SetHist, &[T, T, P, P, ZK, ZD], 40, (1000, 40_000)), cb("map-big", MapHist, &[T, P], 24, (80, 3000)), cw((25, 1000)), cl("map-long-histories", MapHist, &[T, T, P])],
        Prop::C10 => vec![c("map-consume", MapHist, &[T, T, T, P, P, STR, ZK, ZV, ZB, TG, L, ZD, FT], 40, (2000, 80_000)), c("set-consume", SetHist, &[T, T, P, P, ZK, ZD], 40, (1000, 40_000)), cb("map-big", MapHist, &[T, P], 24, (80, 3000)), cw((25, 1000)), cl("map-long-histories", MapHist, &[T, T, P])],
        Prop::C11 => vec![Campaign { name: "entry-closures-that-panic", engine: MapHist, kinds: &[T, T, P], max_ops: 8, cases: (40, 1500), caps: Some(&[0, 1, 2, 3, 4, 5]), fault: true }, c("entry", MapHist, &[T, T, T, P, P, STR, ZV, ZB, TG, L, ZD, FT], 40, (2500, 120_000)), cb("map-big", MapHist, &[T, P], 30, (80, 3000)), cl("map-long-histories", MapHist, &[T, T, P]), cs((150, 6_000))],
        Prop::C12 => vec![c("map-key-identity", MapHist, &[T, T, TG, FT], 40, (2000, 100_000)), c("set-key-identity", SetHist, &[T, T, TG, FT], 40, (1200, 60_000)), cb("map-big", MapHist, &[T], 30, (80, 3000)), cb("set-big", SetHist, &[T], 30, (60, 2500)), cl("map-long-histories", MapHist, &[T, T, P]), cl("set-long-histories", SetHist, &[T, T, P]), cs((300, 12_000))],
        Prop::C13 => vec![c("disjoint", MapHist, &[T, T, STR, P, PA, PA, L], 30, (1500, 60_000)), cb("map-big", MapHist, &[T, T, P], 24, (80, 3000)), cw((25, 1000)), cs((300, 12_000))],
        Prop::C14 => vec![c("map-equality", MapEq, &[T, P], 24, (2000, 100_000)), c("set-equality", SetAlg, &[T, P], 24, (1000, 50_000)), c("map-equality-histories", MapHist, &[T, T, P], 30, (600, 30_000)), cb("map-equality-big", MapHist, &[T, P], 24, (100, 4000)), cw((25, 1000)), cs((300, 12_000))],
        Prop::C15 => vec![c("map-clone", MapHist, &[T, T, T, ND, ND, P, ZB, ZK, L, ZD, FT], 40, (2000, 100_000)), c("set-clone", SetHist, &[T, T, T, ND, ND, ZK, ZD], 40, (1000, 50_000)), cb("map-big", MapHist, &[T, ND], 24, (60, 2500)), cw((25, 1000)), cl("map-long-histories", MapHist, &[T, T, P])],
        Prop::C16 => vec![c("map-bulk", MapHist, &[T, T, P, TG, L, ZD, FT], 12, (2500, 120_000)), c("set-bulk", SetHist, &[T, T, P, TG, ZD, FT], 12, (2000, 100_000)), cb("map-big", MapHist, &[T, P], 8, (60, 2500)), cb("set-big", SetHist, &[T, P], 8, (60, 2500)), cs((200, 8_000))],
        Prop::C17 => vec![c("map-liar", MapHist, &[T], 40, (2500, 150_000)), c("set-liar", SetHist, &[T], 40, (1500, 80_000)), c("alg-liar", SetAlg, &[T], 24, (800, 40_000)), cb("map-big", MapHist, &[T], 30, (80, 3000))],
        Prop::C18 => vec![c("unchecked-lockstep", MapHist, &[T, T, P, STR, TG, ND, PA, L, ZD, FT], 40, (2500, 150_000)), cb("map-big", MapHist, &[T, T, P], 30, (100, 4000)), cl("map-long-histories", MapHist, &[T, T, P]), cs((200, 8_000))],
        Prop::C19 => vec![c("map-fmt", MapHist, &[T, P, P, STR, STR, L, ZK, ZV, ZV, ZB, ZD], 30, (1500, 60_000)), c("set-fmt", SetHist, &[T, P, STR, ZK], 30, (1000, 40_000)), c("alg-fmt", SetAlg, &[P, STR, T], 20, (600, 30_000)), cb("map-big", MapHist, &[P, T], 16, (40, 1500)), cs((300, 12_000))],
        Prop::C20 => vec![],
    }
}

/// Property-specific op weights for bulk-heavy campaigns are in the engines; here only the
/// non-triviality predicates over the class counters of one executed case.
/// pseudo-capacity under which the slices engine reports its cases
pub const SLICES_N: usize = 1005;

pub fn nontrivial(p: Prop, st: &[u64; NS], n: usize) -> bool {
    let g = |s: S| st[s as usize];
    if n == SLICES_N {
        // slices engine: >=1 lookup through another slice than the stored key, and either a
        // get_disjoint_mut whose keys share a start address or >=2 mutations
        return g(S::twin_queries) >= 1 && (g(S::shared_start_queries) >= 1 || g(S::mutations) >= 2);
    }
    if n == 300 {
        // wide engine: the case ran at least one op on a container holding more than 255 entries
        return g(S::reached_full) >= 1 && g(S::ops) >= 1;
    }
    match p {
        Prop::C01 | Prop::C07 => {
            if n == 0 {
                g(S::mutations) >= 1
            } else {
                g(S::swap_removals) >= 1 && g(S::insert_after_swap) >= 1 && g(S::reached_full) >= 1
            }
        }
        Prop::C02 => g(S::partial_drains) + g(S::partial_consumes) >= 1 || g(S::replace_on_full) >= 1 || g(S::rejected_inserts) >= 1,
        Prop::C03 => g(S::overflow_probes_after_removal) >= 1 || g(S::bulk_overflow) >= 1,
        Prop::C04 => g(S::fault_in_mutating_op) >= 1,
        Prop::C05 => g(S::mutation_after_lib_panic) >= 1 || (g(S::replace_on_full) + g(S::retain_removed) + g(S::entry_occ_remove_nonlast) >= 1 && g(S::mutations) >= 2),
        Prop::C06 => g(S::alloc_groups) >= 4 || g(S::alg_pairs) >= 1,
        Prop::C08 => g(S::alg_proper_overlap) >= 1,
        Prop::C09 => g(S::walks_cut_inside_after_swap) >= 1,
        Prop::C10 => g(S::partial_consumes) + g(S::partial_drains) >= 1 || g(S::drain_refilled_full) >= 1,
        Prop::C11 => g(S::entry_occ_remove_nonlast) >= 1 || g(S::entry_vacant_fill_last) >= 1,
        Prop::C12 => g(S::dup_key_paths) >= 2 && g(S::dup_key_on_full) >= 1,
        Prop::C13 => g(S::disjoint_reordered) >= 1,
        Prop::C14 => g(S::eq_near_miss) + g(S::eq_equal_diff_order) >= 1,
        Prop::C15 => g(S::clones_ge2) + g(S::clones_full) + g(S::clones_empty) >= 1 && g(S::mutate_after_clone) >= 1,
        Prop::C16 => g(S::bulk_longer_than_n) >= 1 || g(S::bulk_repeat_after_full) >= 1,
        Prop::C17 => g(S::liar_lies) >= 1 && g(S::mutations) >= 1,
        Prop::C18 => g(S::unchecked_replace_nonlast) >= 1 && g(S::unchecked_fill_last) >= 1,
        Prop::C19 => g(S::fmt_iter_partial) >= 1 || g(S::fmt_calls) >= 2,
        Prop::C20 => true,
    }
}

pub fn rule_text(p: Prop) -> &'static str {
    match p {
        Prop::C01 => "random op histories (proptest, monotone byte decoding) over Map<K,V,N>, N in {0,1,2,3,4,6,9,17}, universe in {N-1,N,N+1,N+3}, kinds tracked/plain/string/zstkey/zstval; non-trivial = history with >=1 removal of a key that was not last in iteration order (a real swap), >=1 later insert of a new key, and len==N reached (for N=0: >=1 mutating call); distinct = hash of the whole case",
        Prop::C02 => "histories over ledger-tracked keys/values incl. consuming iterators and drains stopped after j items and then dropped / run to end / mem::forget-ed; non-trivial = >=1 consuming iterator or drain abandoned strictly part-way, or a replace on a full container, or a rejected insert; distinct = case hash",
        Prop::C03 => "histories biased to fill, then an overflow sweep: every safe insertion entry point tried with an absent key on the full container (plus replace of a present key through every path, with_capacity, bulk construction with > N distinct keys); non-trivial = sweep on a full state whose history contains a swap-removal (or N=0), or a bulk overflow; distinct = case hash",
        Prop::C04 => "for each generated history every user-callback index p in [0,T) is made to panic once (fuse); non-trivial = (history,p) run in which the injected panic fired inside a mutating library call; distinct = hash of (case, p)",
        Prop::C05 => "histories incl. entry/iterator ops and library-raised panics; standing invariants after every op; non-trivial = a library-raised panic (overflow, missing index, overlapping keys) followed by a mutation, or replace-on-full/retain removal/entry removal plus >=2 mutations; distinct = case hash",
        Prop::C06 => "histories over non-allocating payloads under a counting global allocator, every call measured; non-trivial = case exercising all four op groups (insert, lookup, removal, iterate/clone/eq/fmt) or a set-algebra pair; distinct = case hash",
        Prop::C07 => "random Set op histories vs BTreeSet-like model; non-trivial as C01 (swap-removal, later insert, full reached); distinct = case hash",
        Prop::C08 => "pairs of sets built by generated histories (internal order history-made) + exhaustive arrangements of subsets of a 4-element universe; every op stepped with size_hint/fold/clone at every prefix; non-trivial = pair with a proper overlap (neither disjoint, equal nor nested) or unequal sizes with non-empty intersection; distinct = (case hash)",
        Prop::C09 => "histories with walks (iter, iter_mut, keys, values, values_mut, &map, &mut map) cut at a generated point; non-trivial = walk over a state with len>=2 produced by >=1 swap-removal with the cut strictly inside; distinct = case hash",
        Prop::C10 => "histories with into_iter/into_keys/into_values/drain taken j steps then dropped/run to end; non-trivial = partial consumption (0<j<len) or a drained map refilled to len==N; distinct = case hash",
        Prop::C11 => "histories with entry chains (or_insert*, or_default, and_modify, key, Occupied/Vacant methods); non-trivial = occupied removal of a key that is not in the last slot, or vacant insert filling the last free slot; distinct = case hash",
        Prop::C12 => "histories over equal-but-distinguishable keys; non-trivial = equal key supplied on >=2 different insertion paths, one of them on a full container; distinct = case hash",
        Prop::C13 => "map states from histories, then request tuples (J in 0..=5, random and exhaustive sweeps over U^J); non-trivial = >=2 present keys requested in an order different from their slot order on a state produced by a swap-removal; distinct = case hash",
        Prop::C14 => "pairs of containers: left from a history, right derived from the left model by a generated edit (permutation, detour, one value/key changed, one entry dropped/added) + exhaustive small scope; non-trivial = equal with different slot order/capacity or differing in exactly one value/key/length-by-one; distinct = case hash",
        Prop::C15 => "histories with clone followed by operations on either copy; non-trivial = clone of a state with len>=2 (or full / empty) followed by >=1 mutation of one copy; distinct = case hash",
        Prop::C16 => "item sequences with arbitrary repetition (length 0..3N+2) through from_iter/collect/From<[_;N]>/extend, differential vs one-by-one insert and vs model; non-trivial = sequence longer than N with <=N distinct keys, or a repeat of the first key after the container became full; distinct = case hash",
        Prop::C17 => "histories of safe ops under a key type whose ==/Borrow answers follow a generated script (always-true, always-false, every-k-th flipped, asymmetric, non-reflexive, bit-stream, alternate borrow); non-trivial = >=1 untruthful comparison and >=1 mutating op; distinct = case hash",
        Prop::C18 => "two maps in lockstep: one through insert/get_disjoint_mut, the other through insert_unchecked/get_disjoint_unchecked_mut whenever the documented precondition holds; non-trivial = >=1 unchecked replace of a key in a non-last slot and >=1 unchecked insert filling the last free slot; distinct = case hash",
        Prop::C19 => "states from histories rendered with {:?}, {:#?}, {} and Debug of every iterator kind after j steps; non-trivial = iterator Debug taken strictly inside a traversal, or >=2 container renderings; distinct = case hash",
        Prop::C20 => "contents from histories, serialized and deserialized into target capacities",
    }
}
