//! Type-level probe attached to the generated checks of C09, C10, C14, C15, C19 and C20.
//!
//! The generated checks instantiate the library with the harness's payload kinds, all of which
//! implement `Clone + PartialEq + Debug`. The statements, however, quantify over *any* key and
//! value type, any pair of capacities and (C20) every content - so an implementation that narrows
//! a trait bound (say `#[derive(Clone)]` on an iterator, which silently demands `K: Clone, V:
//! Clone`) breaks the statement for types the generated cases cannot contain, and does so at
//! compile time. This crate is only type-checked: each function below compiles exactly when the
//! instantiation it names exists. The element types implement the minimum the statement needs.
#![allow(dead_code, unused_variables, clippy::all)]
use micromap::{Map, Set};

/// implements nothing at all
pub struct Bare;
/// only comparable
#[derive(PartialEq)]
pub struct Pe(u8);
/// only cloneable
#[derive(Clone)]
pub struct Cl(u8);
/// only Debug
#[derive(Debug)]
pub struct Db(u8);
/// only Display
pub struct Di(u8);
impl core::fmt::Display for Di {
    fn fmt(&self, f: &mut core::fmt::Formatter<'_>) -> core::fmt::Result {
        f.write_str("d")
    }
}
/// comparable + Debug
#[derive(PartialEq, Debug)]
pub struct PeDb(u8);
/// comparable + Clone
#[derive(PartialEq, Clone)]
pub struct PeCl(u8);

fn clone<T: Clone>(_: &T) {}
fn exact<T: ExactSizeIterator>(_: &T) {}
fn yields<I, T: Iterator<Item = I>>(_: &T) {}
fn debug<T: core::fmt::Debug>(_: &T) {}
fn display<T: core::fmt::Display>(_: &T) {}
fn peq<A: PartialEq<B>, B>(_: &A, _: &B) {}
fn eq<A: Eq>(_: &A) {}

/// C09: "iter, iter_mut, keys, values, values_mut and Set::iter ... len() and size_hint ...
/// a cloned iterator continues identically" - for any key and value type.
#[cfg(feature = "c09")]
pub fn c09(m: &mut Map<Bare, Bare, 4>, s: &Set<Bare, 4>) {
    {
        let i = m.iter();
        clone(&i);
        exact(&i);
        yields::<(&Bare, &Bare), _>(&i);
        let k = m.keys();
        clone(&k);
        exact(&k);
        yields::<&Bare, _>(&k);
        let v = m.values();
        clone(&v);
        exact(&v);
        yields::<&Bare, _>(&v);
        let si = s.iter();
        clone(&si);
        exact(&si);
        yields::<&Bare, _>(&si);
        let r = (&*m).into_iter();
        clone(&r);
        exact(&r);
        let rs = s.into_iter();
        clone(&rs);
        exact(&rs);
    }
    {
        let im = m.iter_mut();
        exact(&im);
        yields::<(&Bare, &mut Bare), _>(&im);
    }
    {
        let vm = m.values_mut();
        exact(&vm);
        yields::<&mut Bare, _>(&vm);
    }
    let rm = (&mut *m).into_iter();
    exact(&rm);
}

/// C10: "into_iter, into_keys, into_values, drain and their Set equivalents ... exact
/// len()/size_hint" - for any key and value type.
#[cfg(feature = "c10")]
pub fn c10(mut m: Map<Bare, Bare, 4>, m2: Map<Bare, Bare, 4>, m3: Map<Bare, Bare, 4>, mut s: Set<Bare, 4>, s2: Set<Bare, 4>) {
    {
        let d = m.drain();
        exact(&d);
        yields::<(Bare, Bare), _>(&d);
    }
    {
        let d = s.drain();
        exact(&d);
        yields::<Bare, _>(&d);
    }
    let i = m.into_iter();
    exact(&i);
    yields::<(Bare, Bare), _>(&i);
    let k = m2.into_keys();
    exact(&k);
    yields::<Bare, _>(&k);
    let v = m3.into_values();
    exact(&v);
    yields::<Bare, _>(&v);
    let si = s2.into_iter();
    exact(&si);
    yields::<Bare, _>(&si);
}

/// C14: equality needs nothing but `PartialEq` of keys and values and is defined between any
/// two capacities.
#[cfg(feature = "c14")]
pub fn c14(a: &Map<Pe, Pe, 3>, b: &Map<Pe, Pe, 7>, z: &Map<Pe, Pe, 0>, sa: &Set<Pe, 3>, sb: &Set<Pe, 7>, sz: &Set<Pe, 0>, e: &Map<u8, u8, 3>, es: &Set<u8, 3>) {
    peq(a, b);
    peq(b, a);
    peq(a, a);
    peq(a, z);
    peq(z, a);
    peq(sa, sb);
    peq(sb, sa);
    peq(sa, sa);
    peq(sa, sz);
    peq(sz, sa);
    eq(e);
    eq(es);
}

/// C15: cloning needs nothing but `Clone` of keys and values.
#[cfg(feature = "c15")]
pub fn c15(m: &Map<Cl, Cl, 4>, z: &Map<Cl, Cl, 0>, s: &Set<Cl, 4>, mut m2: Map<Cl, Cl, 4>, mut s2: Set<Cl, 4>) {
    clone(m);
    clone(z);
    clone(s);
    m2.clone_from(m);
    s2.clone_from(s);
}

/// C19: Debug needs only `Debug` (Display only `Display`) of keys and values; every iterator
/// and drain is Debug.
#[cfg(feature = "c19")]
pub fn c19(mut m: Map<Db, Db, 4>, m2: Map<Db, Db, 4>, m3: Map<Db, Db, 4>, m4: Map<Db, Db, 4>, s: Set<Db, 4>, dm: &Map<Di, Di, 4>, ds: &Set<Di, 4>, ps: &Set<PeDb, 4>, ps2: &Set<PeDb, 2>) {
    debug(&m);
    debug(&s);
    display(dm);
    display(ds);
    debug(&m.iter());
    debug(&m.keys());
    debug(&m.values());
    debug(&m.iter_mut());
    debug(&m.values_mut());
    debug(&m.drain());
    debug(&m2.into_iter());
    debug(&m3.into_keys());
    debug(&m4.into_values());
    debug(&ps.union(ps2));
    debug(&ps.intersection(ps2));
    debug(&ps.difference(ps2));
    debug(&ps.symmetric_difference(ps2));
}

/// C20: "for every content" - contents that borrow from the input (`&str`, `&[u8]`) round-trip
/// through `Deserialize<'de>`, as do owned ones through `DeserializeOwned`.
#[cfg(feature = "c20")]
pub mod c20 {
    use micromap::{Map, Set};
    use serde::de::DeserializeOwned;
    use serde::{Deserialize, Serialize};
    fn ser<T: Serialize>() {}
    fn de<'de, T: Deserialize<'de>>() {}
    fn owned<T: DeserializeOwned>() {}
    pub fn probe<'de>() {
        ser::<Map<&'de str, &'de [u8], 4>>();
        ser::<Set<&'de str, 4>>();
        de::<'de, Map<&'de str, &'de [u8], 4>>();
        de::<'de, Map<&'de str, u8, 4>>();
        de::<'de, Map<u8, &'de str, 4>>();
        de::<'de, Set<&'de str, 4>>();
        de::<'de, Set<&'de [u8], 4>>();
        owned::<Map<u8, u16, 4>>();
        owned::<Set<u8, 0>>();
        owned::<Map<u8, Map<u8, Set<u8, 2>, 2>, 4>>();
    }
    /// and through a real call: a generic deserializer handing out borrowed data
    pub fn through<'de, D: serde::Deserializer<'de>>(d: D) -> Result<Map<&'de str, &'de str, 3>, D::Error> {
        Map::deserialize(d)
    }
    pub fn through_set<'de, D: serde::Deserializer<'de>>(d: D) -> Result<Set<&'de str, 3>, D::Error> {
        Set::deserialize(d)
    }
}
